package main

import (
	"fmt"
	"go/token"
	"go/types"
	"os"
	"reflect"
	"regexp"
	"sort"
	"strings"

	"golang.org/x/tools/go/ssa"
)

func init() {
	props["C18"] = &propDef{run: runC18, explanation: "Partial. Decided statically: (O1) every comparator handed to sort.Slice/SliceStable in the metadata package is, on all weak orderings of (time_i, time_j, number_i, number_j), exactly time_i < time_j ∨ (time_i = time_j ∧ number_i < number_j) — the lexicographic anchoring order (finite, exhaustive); the version provider's comparator is a strict order on its single key; (T1) the transformer's purpose switch maps each of the five purposes to its own relationship and covers every purpose the patch validator admits; the key-context table covers every key type the validator admits; (P1) the verification-method literal (id = getObjectID(did, key id), type, controller = did), getObjectID (relative '#id' under @base, did+'#id' otherwise), exactly one append of the method per key and of each reference per purpose, the key-material table per key type, service id/type/endpoint plus copy of every other member; (P2) the metadata field mapping (method metadata, document metadata, published/unpublished operation literals field by field, de-duplication by canonical reference, both lists sorted before use). Not decided: counting statements over arbitrary documents beyond the one-append-per-iteration shape. The context of the key's type is looked up for every key (for-all loop form); each metadata member is stored under conditions on its own source only. The comparator of a sortedness test is held to the same order; the @base context entry is added under exactly the includeBase flag. No equivalent id reported for an unpublished document carries the initial state. canonicalId / equivalentId of a published document are unconditional and the canonical id is always an equivalent id; object ids are decided in concatenation form under both values of the @base flag; the key-material table is evaluated on all assignments of its atoms. Both transformer steps precede every accepting exit; key-type contexts are de-duplicated by equality; the generic transformer stores nothing over the id. Relationship lists start from slices of their own; optional metadata members are stored under a presence test of the whole value; every unpublished operation is listed. An empty key context leads to the defaults after the options. Service members are copied whatever their values. Equivalent ids of an unpublished document carry the label. created / updated are the RFC 3339 text of the UTC form of the anchoring time; relationship lists stored in a loop start from slices made for them."}
}

func (c *Ctx) sortComparators(pkgRel string) []*ssa.Function {
	var out []*ssa.Function
	for _, f := range c.Funcs {
		if pkgPathOf(f) != modPkg+pkgRel {
			continue
		}
		forEachInstr(f, func(in ssa.Instruction) {
			cl, ok := in.(*ssa.Call)
			if !ok || cl.Call.StaticCallee() == nil {
				return
			}
			n := cl.Call.StaticCallee().String()
			// a sortedness test decides whether the sort runs: its comparator must be the same order
			if n != "sort.Slice" && n != "sort.SliceStable" && n != "sort.SliceIsSorted" {
				return
			}
			if mc, isMC := cl.Call.Args[1].(*ssa.MakeClosure); isMC {
				out = append(out, mc.Fn.(*ssa.Function))
			} else if fn, isF := cl.Call.Args[1].(*ssa.Function); isF {
				out = append(out, fn)
			}
		})
	}
	return out
}

// hasBaseTag: a (pointer to a) struct with a member serialised as "@base".
func hasBaseTag(t types.Type) bool {
	st, ok := derefT(t).Underlying().(*types.Struct)
	if !ok {
		return false
	}
	for i := 0; i < st.NumFields(); i++ {
		if strings.Split(reflect.StructTag(st.Tag(i)).Get("json"), ",")[0] == "@base" {
			return true
		}
	}
	return false
}

func runC18(c *Ctx) {
	const pMeta = "versions/1_0/doctransformer/metadata"
	const pDT = "versions/1_0/doctransformer/didtransformer"
	// ---------------- O1
	cmps := c.sortComparators(pMeta)
	for i, less := range cmps {
		paths, err := c.DecisionPaths(less, nil)
		key := fmt.Sprintf("metadata:comparator%d", i)
		if err != nil {
			c.Check("C18.O1", key, false, less.Pos(), "cannot extract the comparator's decision tree: "+err.Error())
			continue
		}
		sym := func(s string) (string, bool) {
			idx := ""
			switch {
			case strings.Contains(s, "[$0]"):
				idx = "i"
			case strings.Contains(s, "[$1]"):
				idx = "j"
			default:
				return s, false
			}
			switch {
			case strings.HasSuffix(s, ".TransactionTime"):
				return "t" + idx, true
			case strings.HasSuffix(s, ".TransactionNumber"):
				return "n" + idx, true
			}
			return s, false
		}
		// the comparator written with the library's three-way helpers: cmp.Or(cmp.Compare(a, b), cmp.Compare(c, d)) < 0 —
		// the first comparison that is not "equal" decides
		if terms, neg, isTW := c.threeWayLess(less); isTW {
			points := []string{"ti", "tj", "ni", "nj"}
			ok := true
			n := 0
			var w []string
			for ti := range terms {
				for k := 0; k < 2; k++ {
					var o bool
					terms[ti][k], o = sym(terms[ti][k])
					if !o {
						ok = false
						w = append(w, "term "+terms[ti][k]+" is not a transaction time / number of element i or j")
					}
				}
			}
			for _, ranks := range weakOrderings(4) {
				if !ok {
					break
				}
				rk := map[string]int{}
				for k, p := range points {
					rk[p] = ranks[k]
				}
				n++
				v := 0
				for _, t := range terms {
					if rk[t[0]] < rk[t[1]] {
						v = -1
					} else if rk[t[0]] > rk[t[1]] {
						v = 1
					}
					if v != 0 {
						break
					}
				}
				got := v < 0
				if neg {
					got = v > 0
				}
				want := rk["ti"] < rk["tj"] || (rk["ti"] == rk["tj"] && rk["ni"] < rk["nj"])
				if got != want {
					ok = false
					if len(w) < 6 {
						w = append(w, fmt.Sprintf("ordering %s: less(i,j)=%v, lexicographic (time, number) order says %v", describeOrdering(points, ranks), got, want))
					}
				}
			}
			c.Check("C18.O1", key, ok, less.Pos(), fmt.Sprintf("comparator (three-way form) decided on %d weak orderings of (time_i, time_j, number_i, number_j)", n), w...)
			continue
		}
		var bad []string
		for pi := range paths {
			for ci := range paths[pi].Conds {
				cd := &paths[pi].Conds[ci]
				var o1, o2 bool
				cd.L, o1 = sym(cd.L)
				cd.R, o2 = sym(cd.R)
				if !o1 || !o2 {
					bad = append(bad, cd.L+" "+cd.Op.String()+" "+cd.R)
				}
			}
		}
		if len(bad) > 0 {
			c.Check("C18.O1", key, false, less.Pos(), fmt.Sprintf("comparator compares terms other than (TransactionTime, TransactionNumber) of elements i and j: %v — undecided", bad))
			continue
		}
		points := []string{"ti", "tj", "ni", "nj"}
		ok := true
		n := 0
		var w []string
		for _, ranks := range weakOrderings(4) {
			rk := map[string]int{}
			for k, p := range points {
				rk[p] = ranks[k]
			}
			n++
			hit, err := evalPaths(paths, rk)
			if err != nil {
				ok = false
				w = append(w, err.Error())
				break
			}
			got := hit.Ret[0] == "true"
			if hit.Ret[0] != "true" && hit.Ret[0] != "false" {
				ok = false
				w = append(w, "comparator result is not a boolean constant: "+hit.Ret[0])
				break
			}
			want := rk["ti"] < rk["tj"] || (rk["ti"] == rk["tj"] && rk["ni"] < rk["nj"])
			if got != want {
				ok = false
				if len(w) < 6 {
					w = append(w, fmt.Sprintf("ordering %s: less(i,j)=%v, lexicographic (time, number) order says %v", describeOrdering(points, ranks), got, want))
				}
			}
		}
		c.Check("C18.O1", key, ok, less.Pos(), fmt.Sprintf("comparator decided on %d weak orderings of (time_i, time_j, number_i, number_j)", n), w...)
	}
	if len(cmps) == 0 {
		c.Check("C18.O1", "metadata:comparator", false, 0, "no sort comparator found in the metadata package")
	}
	// both operation lists are sorted before use: getPublished/getUnpublished call the sorter first
	for _, fn := range []string{"getPublishedOperations", "getUnpublishedOperations"} {
		f := c.Fn(pMeta, fn)
		if f == nil {
			c.Unresolved("C18.O1", "metadata."+fn)
			continue
		}
		var sortCall *ssa.Call
		forEachInstr(f, func(in ssa.Instruction) {
			if cl, ok := in.(*ssa.Call); ok {
				if g := cl.Call.StaticCallee(); g != nil && inModule(g) && len(cl.Call.Args) == 1 && c.Path(cl.Call.Args[0], nil) == "$0" {
					for _, cm := range cmps {
						if cm.Parent() == g {
							sortCall = cl
						}
					}
				}
			}
		})
		// the sort precedes every read of the list's elements (a length test before it is fine)
		sorted := sortCall != nil
		reads := 0
		forEachInstr(f, func(in ssa.Instruction) {
			var x ssa.Value
			switch y := in.(type) {
			case *ssa.IndexAddr:
				x = y.X
			case *ssa.Index:
				x = y.X
			case *ssa.Range:
				x = y.X
			case *ssa.Slice:
				x = y.X
			}
			if cl, isC := in.(*ssa.Call); isC && cl != sortCall {
				// the list handed to a module function that walks it (a filter / de-duplication helper)
				if g := cl.Call.StaticCallee(); g != nil && inModule(g) {
					for _, a := range cl.Call.Args {
						if c.Path(a, nil) == "$0" {
							x = a
						}
					}
				}
			}
			if x == nil || c.Path(x, nil) != "$0" {
				return
			}
			reads++
			if sortCall == nil || !instrDominates(sortCall, in) {
				sorted = false
			}
		})
		sorted = sorted && reads > 0
		if sortCall == nil && reads > 0 {
			// the list is sorted by the caller: at every call, the same list went through the sorting function first
			isSort := func(cl *ssa.Call) bool {
				g := cl.Call.StaticCallee()
				if g == nil || !inModule(g) || len(cl.Call.Args) != 1 {
					return false
				}
				for _, cm := range cmps {
					if cm.Parent() == g {
						return true
					}
				}
				return false
			}
			nCalls, okCalls := 0, true
			for _, h := range c.Funcs {
				for _, cl := range callsTo(h, f) {
					nCalls++
					arg := c.Path(cl.Call.Args[0], nil)
					before := false
					for _, sc := range findCalls(h, isSort) {
						if c.Path(sc.Call.Args[0], nil) == arg && instrDominates(sc, cl) {
							before = true
						}
					}
					if !before {
						okCalls = false
					}
				}
			}
			sorted = nCalls > 0 && okCalls
		}
		c.Check("C18.O1", fn+":sorted-before-use", sorted, f.Pos(), fn+" sorts its input with the checked comparator before building the list")
	}
	// version provider comparator: strict order on one key
	for i, less := range c.sortComparators("vdr/sidetreelongform/dochandler/protocol/verprovider") {
		paths, err := c.DecisionPaths(less, nil)
		key := fmt.Sprintf("verprovider:comparator%d", i)
		if err != nil {
			c.Check("C18.O1", key, false, less.Pos(), "cannot extract decision tree: "+err.Error())
			continue
		}
		okS := true
		for pi := range paths {
			for ci := range paths[pi].Conds {
				cd := &paths[pi].Conds[ci]
				for _, s := range []*string{&cd.L, &cd.R} {
					switch {
					case strings.Contains(*s, "[$0]") && strings.HasSuffix(*s, ".GenesisTime"):
						*s = "gi"
					case strings.Contains(*s, "[$1]") && strings.HasSuffix(*s, ".GenesisTime"):
						*s = "gj"
					default:
						okS = false
					}
				}
			}
		}
		if !okS {
			c.Check("C18.O1", key, false, less.Pos(), "comparator compares something other than the two genesis times — undecided")
			continue
		}
		ok := true
		for _, ranks := range weakOrderings(2) {
			rk := map[string]int{"gi": ranks[0], "gj": ranks[1]}
			hit, err := evalPaths(paths, rk)
			if err != nil || (hit.Ret[0] == "true") != (rk["gi"] < rk["gj"]) {
				ok = false
			}
		}
		c.Check("C18.O1", key, ok, less.Pos(), "version comparator is the strict ascending order on genesis time (irreflexive, asymmetric)")
	}
	c.Min("C18.O1", 4)

	// the @base flag is the boolean field the exported option WithBase sets (whatever its name)
	baseFlag := "includeBase"
	if wb := c.Fn(pDT, "WithBase"); wb != nil {
		for _, an := range wb.AnonFuncs {
			forEachInstr(an, func(in ssa.Instruction) {
				if st, ok := in.(*ssa.Store); ok {
					if fa, isFA := st.Addr.(*ssa.FieldAddr); isFA && isBoolType(st.Val.Type()) {
						baseFlag = fieldName(fa.X.Type(), fa.Field)
					}
				}
			})
		}
	}
	// ---------------- T1
	c.relationshipListsSeparateRule("C18.T1")
	pk := c.Method(pDT, "Transformer", "processKeys")
	if pk == nil {
		c.Unresolved("C18.T1", "(*didtransformer.Transformer).processKeys")
	} else {
		c.Analysed(pk)
		tbl := c.caseTable(pk, nil, func(p string) bool { return strings.Contains(p, ").Purpose(") })
		got := map[string]string{}
		for k, blk := range tbl {
			for _, in := range blk.Instrs {
				if mu, ok := in.(*ssa.MapUpdate); ok {
					got[unquote(k)] = unquote(c.Path(mu.Key, nil))
					// the appended value is this key's qualified id
					if ap, isC := mu.Value.(*ssa.Call); isC && len(ap.Call.Args) == 2 {
						okID := false
						if els, okV := c.varargValues(ap.Call.Args[1]); okV && len(els) == 1 {
							okID, _ = c.qualifiedID(els[0], baseFlag, "(document.PublicKey).ID(")
						}
						c.Check("C18.T1", "purpose:"+unquote(k)+":references-key-id", okID, mu.Pos(), "the relationship entry is the key's qualified id")
						// exactly one lookup+append on the same relationship
						c.Check("C18.T1", "purpose:"+unquote(k)+":appends-to-same-relationship", c.Path(ap.Call.Args[0], nil) == c.Path(mu.Map, nil)+"["+c.Path(mu.Key, nil)+"]", mu.Pos(), "append target and source relationship coincide: "+c.Path(ap.Call.Args[0], nil))
					}
				}
			}
		}
		if len(got) == 0 {
			// table form: relationship looked up in a package-level map keyed by the purpose; the entry appended
			// under that relationship
			forEachInstr(pk, func(in ssa.Instruction) {
				lk, ok := in.(*ssa.Lookup)
				if !ok || !strings.Contains(c.Path(lk.Index, nil), ").Purpose(") {
					return
				}
				ld, isLd := lk.X.(*ssa.UnOp)
				if !isLd {
					return
				}
				g, isG := ld.X.(*ssa.Global)
				if !isG {
					return
				}
				rel := extractOf2(lk, 0)
				if rel == nil && !lk.CommaOk {
					rel = lk
				}
				used := false
				forEachInstr(pk, func(i2 ssa.Instruction) {
					if mu, isMU := i2.(*ssa.MapUpdate); isMU && mu.Key == rel {
						if ap, isC := mu.Value.(*ssa.Call); isC && len(ap.Call.Args) == 2 {
							if l2, isL2 := ap.Call.Args[0].(*ssa.Lookup); isL2 && l2.Index == rel && l2.X == mu.Map {
								used = true
							}
						}
					}
				})
				if used {
					for k, v := range c.globalMapLiteral(g) {
						got[k] = v
					}
				}
			})
		}
		want := map[string]string{"authentication": "authentication", "assertionMethod": "assertionMethod", "keyAgreement": "keyAgreement", "capabilityDelegation": "capabilityDelegation", "capabilityInvocation": "capabilityInvocation"}
		okT := len(got) == len(want)
		for k, v := range want {
			if got[k] != v {
				okT = false
			}
		}
		c.Check("C18.T1", "purpose->relationship-table", okT, pk.Pos(), fmt.Sprintf("purpose -> relationship table %v", got))
		ap := c.globalMapLiteral(c.Global(pPV, "allowedPurposes"))
		cover := true
		for p := range ap {
			if _, ok := got[p]; !ok {
				cover = false
			}
		}
		c.Check("C18.T1", "purposes-admitted-by-validation-are-handled", cover && len(ap) > 0, pk.Pos(), fmt.Sprintf("every purpose the patch validator admits (%v) has a case", keysOf(ap)))
		// final install of each relationship: for key,value := range purposes { if len(value) > 0 { doc[key] = value } }
	}
	kc := keysOf(c.globalMapLiteral(c.Global(pDT, "defaultKeyContextMap")))
	gen := keysOf(c.globalMapLiteral(c.Global(pPV, "allowedKeyTypesGeneral")))
	cov := len(gen) > 0
	for _, t := range gen {
		f := false
		for _, k := range kc {
			if k == t {
				f = true
			}
		}
		if !f {
			cov = false
		}
	}
	c.Check("C18.T1", "key-types-admitted-by-validation-have-a-context", cov, 0, fmt.Sprintf("key-context table %v covers admitted key types %v", kc, gen))
	c.Min("C18.T1", 3)

	// ---------------- P1
	goid := c.Method(pDT, "Transformer", "getObjectID")
	if goid == nil {
		goid = c.Fn(pDT, "getObjectID")
	}
	if goid == nil {
		// no such helper any more: the ids themselves are decided below (qualifiedID), which does not need it
	} else {
		// two exits: "#"+object under the @base flag, document+"#"+object otherwise; the flag is the transformer's
		// includeBase, read in the helper or handed to it by every caller
		okG := false
		detail := ""
		var under, other *ssa.Return
		relRe := regexp.MustCompile(`^"#" \+\+ (\$\d)$`)
		absRe := regexp.MustCompile(`^(\$\d) \+\+ "#" \+\+ (\$\d)$`)
		obj := ""
		for _, r := range returnsOf(goid) {
			cf := c.concatForm(r.Results[0], nil)
			if m := relRe.FindStringSubmatch(cf); m != nil {
				under, obj = r, m[1]
			}
		}
		for _, r := range returnsOf(goid) {
			if m := absRe.FindStringSubmatch(c.concatForm(r.Results[0], nil)); m != nil && m[2] == obj && m[1] != obj {
				other = r
			}
		}
		if under != nil && other != nil && len(returnsOf(goid)) == 2 {
			flag := ""
			for _, cnd := range c.condsOf(under.Block()) {
				if strings.HasSuffix(cnd, "=true") {
					flag = strings.TrimSuffix(cnd, "=true")
				}
			}
			okG = flag != ""
			for _, cnd := range c.condsOf(other.Block()) {
				if cnd == flag+"=true" {
					okG = false
				}
			}
			detail = "flag " + flag
			switch {
			case !okG:
			case strings.HasSuffix(flag, "."+baseFlag):
			case regexp.MustCompile(`^\$\d$`).MatchString(flag):
				// a boolean parameter: every caller passes the transformer's includeBase
				k := int(flag[1] - '0')
				n := 0
				for _, f := range c.Funcs {
					for _, cl := range callsTo(f, goid) {
						n++
						if k >= len(cl.Call.Args) || !strings.HasSuffix(c.Path(cl.Call.Args[k], nil), "."+baseFlag) {
							okG = false
							detail += "; " + short(f.String()) + " passes " + c.Path(cl.Call.Args[k], nil)
						}
					}
				}
				if n == 0 {
					okG = false
				}
			default:
				okG = false
			}
		}
		c.Check("C18.P1", "getObjectID", okG, goid.Pos(), fmt.Sprintf("getObjectID = '#'+id under @base, did+'#'+id otherwise (%s)", detail))
	}
	// the @base context entry is produced exactly when relative ids are: under the transformer's includeBase flag and
	// nothing else (relative key and service ids cannot be resolved without it — services too, in a key-less document)
	if td := c.Method(pDT, "Transformer", "TransformDocument"); td != nil {
		// the producer of the entry (the function building the literal with the "@base" member) is called in
		// TransformDocument or in an unexported helper that assembles the context
		type site struct {
			host *ssa.Function
			call ssa.Instruction // the call of the producer, or the literal itself when it is written in place
		}
		var sites []site
		var ctxStore *ssa.MapUpdate
		hosts := append([]*ssa.Function{td}, c.helpersOf(td, 2)...)
		// a producer builds the literal unconditionally (getBase); a function that builds it under a condition is a
		// host with the literal written in place
		producer := func(g *ssa.Function) bool {
			if g == td || g.Blocks == nil {
				return false
			}
			is := false
			forEachInstr(g, func(i2 ssa.Instruction) {
				if al, isAl := i2.(*ssa.Alloc); isAl && hasBaseTag(al.Type()) && len(c.condsOf(al.Block())) == 0 {
					is = true
				}
			})
			return is
		}
		for _, h := range hosts {
			if producer(h) {
				continue
			}
			forEachInstr(h, func(in ssa.Instruction) {
				switch x := in.(type) {
				case *ssa.Call:
					if g := x.Call.StaticCallee(); g != nil && inModule(g) && producer(g) {
						sites = append(sites, site{h, x})
					}
				case *ssa.Alloc:
					if hasBaseTag(x.Type()) {
						sites = append(sites, site{h, x})
					}
				case *ssa.MapUpdate:
					if h == td && c.Path(x.Key, nil) == `"@context"` {
						ctxStore = x
					}
				}
			})
		}
		okB := len(sites) == 1 && ctxStore != nil
		var extra []string
		if okB {
			h := sites[0].host
			common := map[string]bool{}
			if h == td {
				for _, cnd := range c.condsOf(ctxStore.Block()) {
					common[cnd] = true
				}
			} else {
				// in a helper: relative to the helper's accepting exit; and the helper itself is called unconditionally
				// (relative to the store of the context)
				srs := successReturns(h)
				if len(srs) != 1 {
					okB = false
				} else {
					for _, cnd := range c.condsOf(srs[0].Block()) {
						common[cnd] = true
					}
				}
				atStore := map[string]bool{}
				for _, cnd := range c.condsOf(ctxStore.Block()) {
					atStore[cnd] = true
				}
				nCalls := 0
				for _, hh := range hosts {
					for _, cl := range callsTo(hh, h) {
						nCalls++
						if hh != td {
							okB = false
							continue
						}
						for _, cnd := range c.condsOf(cl.Block()) {
							if !atStore[cnd] {
								extra = append(extra, "call of "+h.Name()+": "+cnd)
							}
						}
					}
				}
				if nCalls != 1 {
					okB = false
				}
			}
			for _, cnd := range c.condsOf(sites[0].call.Block()) {
				if !common[cnd] {
					extra = append(extra, cnd)
				}
			}
			okB = okB && len(extra) == 1 && extra[0] == "$0."+baseFlag+"=true"
		}
		c.Check("C18.P1", "@base-context-iff-includeBase", okB, td.Pos(), fmt.Sprintf("the @base context entry is added under the conditions %v (expected exactly [$0.includeBase=true]; %d producer call(s))", extra, len(sites)))
	} else {
		c.Unresolved("C18.P1", "(*Transformer).TransformDocument")
	}
	if pk != nil {
		c.qualifiedIDRule("C18.P1", "verification-method", pk, "document.PublicKey", baseFlag, "(document.PublicKey).ID(")
		c.mapLiteralRule("C18.P1", "verification-method", pk, "document.PublicKey", map[string]func(string) bool{
			`"type"`: func(s string) bool { return strings.HasPrefix(s, "(document.PublicKey).Type(") },
			`"controller"`: func(s string) bool {
				return strings.Contains(s, ").ID(") && strings.Contains(s, ".Document") && !strings.Contains(s, " + ") && !strings.Contains(s, "[ι]")
			},
		})
		// the context of the key's type is looked up for every key (an iteration that skips the lookup leaves a key type
		// used in the document without its @context entry)
		c.CheckGuardLoop("C18.P1", "key-context:looked-up-for-every-key", pk, nil, &GCheck{Name: "key-type context found", NoDescend: true, MatchOK: func(c *Ctx, v ssa.Value, env Env) bool {
			lk, ok := v.(*ssa.Lookup)
			return ok && strings.HasPrefix(c.Path(lk.X, env), "$0.") && types.TypeString(lk.X.Type(), nil) == "map[string]string" && strings.Contains(c.Path(lk.Index, env), ").Type(")
		}})
		// exactly one append of the method per iteration, unconditionally after the context lookup
		c.oneAppendPerIteration("C18.P1", "verification-method:one-append-per-key", pk, "[]document.PublicKey")
		// key material table
		c.keyMaterialTable(pk)
	}
	if ps := c.Method(pDT, "Transformer", "processServices"); ps != nil {
		c.Analysed(ps)
		c.qualifiedIDRule("C18.P1", "service", ps, "document.Service", baseFlag, "(document.Service).ID(")
		c.mapLiteralRule("C18.P1", "service", ps, "document.Service", map[string]func(string) bool{
			`"type"`:            func(s string) bool { return strings.HasPrefix(s, "(document.Service).Type(") },
			`"serviceEndpoint"`: func(s string) bool { return strings.HasPrefix(s, "(document.Service).ServiceEndpoint(") },
		})
		c.oneAppendPerIteration("C18.P1", "service:one-append-per-service", ps, "[]document.Service")
		// every other member copied: inner range over the service with MapUpdate(key,value) guarded by !ok
		copied := false
		var valueConds []string
		forEachInstr(ps, func(in ssa.Instruction) {
			if mu, ok := in.(*ssa.MapUpdate); ok && strings.Contains(c.Path(mu.Key, nil), "next(range(") && strings.Contains(c.Path(mu.Value, nil), "next(range(") {
				copied = true
				// … whatever its value: the copy is decided on the member's name only (a member that is there with the
				// value null is still a member)
				vp := c.Path(mu.Value, nil)
				for _, cnd := range c.condsOf(mu.Block()) {
					if strings.Contains(cnd, vp) {
						valueConds = append(valueConds, cnd)
					}
				}
			}
		})
		// or copied wholesale first (maps.Copy / maps.Clone of the service), the transformer's own members stored after it
		if !copied {
			forEachInstr(ps, func(in ssa.Instruction) {
				cl, ok := in.(*ssa.Call)
				if !ok || cl.Call.StaticCallee() == nil || len(cl.Call.Args) != 2 {
					return
				}
				o := cl.Call.StaticCallee().Origin()
				if o == nil || pkgPathOf(o) != "maps" || o.Name() != "Copy" {
					return
				}
				dst, isMM := stripConv(cl.Call.Args[0]).(*ssa.MakeMap)
				if !isMM || !strings.Contains(c.Path(cl.Call.Args[1], nil), "[ι]") {
					return
				}
				// every store of the transformer's own members into dst comes after the copy
				after := true
				for _, r := range *dst.Referrers() {
					if mu, isMU := r.(*ssa.MapUpdate); isMU && mu.Map == ssa.Value(dst) {
						if _, isK := mu.Key.(*ssa.Const); isK && !instrBefore(cl, mu) {
							after = false
						}
					}
				}
				copied = after
			})
		}
		c.Check("C18.P1", "service:other-members-copied", copied && len(valueConds) == 0, ps.Pos(), fmt.Sprintf("every further member of the internal service is copied to the external one, whatever its value (conditions on the value: %v)", valueConds))
	} else {
		c.Unresolved("C18.P1", "processServices")
	}
	// "no key context configured" means the defaults: after the options have run, the constructor replaces an empty key
	// context (none given, nil, or a map without entries — what an unset configuration entry yields) by the default one;
	// with an empty context kept, every document that has a key fails to transform
	if nw := c.Fn(pDT, "New"); nw != nil {
		c.Analysed(nw)
		okD := false
		detail := "no test of len(keyCtx) against 0 that dominates the constructor's exits"
		// the test sits in New, or in an unexported helper New calls on every path after the options loop
		var search func(fn *ssa.Function, top bool) bool
		search = func(fn *ssa.Function, top bool) bool {
			found := false
			inLoop := map[*ssa.BasicBlock]bool{}
			for _, l := range naturalLoops(fn) {
				for b := range l.blocks {
					inLoop[b] = true
				}
			}
			domExits := func(b *ssa.BasicBlock) bool {
				for _, r := range returnsOf(fn) {
					if !b.Dominates(r.Block()) {
						return false
					}
				}
				return true
			}
			forEachInstr(fn, func(in ssa.Instruction) {
				switch x := in.(type) {
				case *ssa.BinOp:
					if !isCmp(x.Op) || !strings.HasPrefix(c.Path(x.X, nil), "len(") || !strings.HasSuffix(c.Path(x.X, nil), ".keyCtx)") || c.Path(x.Y, nil) != "0" || inLoop[x.Block()] || !domExits(x.Block()) {
						return
					}
					var zeroTrue bool
					switch x.Op {
					case token.EQL, token.LEQ:
						zeroTrue = true
					case token.NEQ, token.GTR:
						zeroTrue = false
					default:
						return
					}
					for _, e := range boolEdges(x, zeroTrue) {
						// on that edge: the field receives the default map — itself, or a map filled from it (a copy)
						stored, fromDefault := false, false
						forEachInstr(fn, func(i2 ssa.Instruction) {
							if !e.to.Dominates(i2.Block()) {
								return
							}
							if st, isS := i2.(*ssa.Store); isS && strings.HasSuffix(c.Path(st.Addr, nil), ".keyCtx") {
								stored = true
								if strings.HasSuffix(c.Path(st.Val, nil), ".defaultKeyContextMap") {
									fromDefault = true
								}
							}
							if ld, isLd := i2.(*ssa.UnOp); isLd && ld.Op == token.MUL {
								if g, isG := ld.X.(*ssa.Global); isG && g.Name() == "defaultKeyContextMap" {
									fromDefault = true
								}
							}
						})
						if stored && fromDefault {
							found = true
						}
					}
				case *ssa.Call:
					if !top {
						return
					}
					h := x.Call.StaticCallee()
					if h == nil || !inModule(h) || h.Blocks == nil || h.Object() == nil || h.Object().Exported() || pkgPathOf(h) != pkgPathOf(fn) || inLoop[x.Block()] || !domExits(x.Block()) {
						return
					}
					if search(h, false) {
						found = true
					}
				}
			})
			return found
		}
		if search(nw, true) {
			okD = true
			detail = "len(keyCtx) == 0 after the options leads to the default key context"
		}
		c.Check("C18.P1", "key-context:defaults-when-none-configured", okD, nw.Pos(), detail)
	} else {
		c.Unresolved("C18.P1", "didtransformer.New")
	}
	c.Min("C18.P1", 11)

	// ---------------- S1 results do not alias the transformer's own state
	{
		var entries []*ssa.Function
		for _, pk := range []string{pDT, "versions/1_0/doctransformer/doctransformer"} {
			if f := c.Method(pk, "Transformer", "TransformDocument"); f != nil {
				entries = append(entries, f)
			}
		}
		if len(entries) == 0 {
			c.Unresolved("C18.S1", "TransformDocument")
		} else {
			c.receiverStateWrites("C18.S1", "TransformDocument", entries, func(t types.Type) bool {
				s := types.TypeString(t, nil)
				return strings.HasSuffix(s, "doctransformer/didtransformer.Transformer") || strings.HasSuffix(s, "doctransformer/doctransformer.Transformer") || strings.HasSuffix(s, "doctransformer/metadata.Metadata")
			})
		}
	}
	c.Min("C18.S1", 1)

	// ---------------- P2 metadata mapping
	c.metadataMapping(pMeta)
	// the equivalentId the metadata reports for an unpublished document is what docutil builds: short-form ids only
	c.equivalentIDsShortForm("C18.P2")
	c.publishedIDsRule("C18.P2")
	c.transformStepsRule("C18.P1")
	c.contextDedupRule("C18.P1")
	c.unpublishedAllListedRule("C18.P2", pMeta)
	c.genericIDRule("C18.P1")
}

// mapLiteralRule: in f there is a freshly made map of the named type whose constant-key updates satisfy preds.
func (c *Ctx) mapLiteralRule(rule, key string, f *ssa.Function, mapType string, preds map[string]func(string) bool) {
	found := map[string]string{}
	forEachInstr(f, func(in ssa.Instruction) {
		mu, ok := in.(*ssa.MapUpdate)
		if !ok {
			return
		}
		mm, isMM := mu.Map.(*ssa.MakeMap)
		if !isMM || typeShort(mm.Type()) != mapType {
			return
		}
		if _, isK := mu.Key.(*ssa.Const); !isK {
			return
		}
		k := c.Path(mu.Key, nil)
		if _, want := preds[k]; want {
			found[k] = c.Path(mu.Value, nil)
		}
	})
	var ks []string
	for k := range preds {
		ks = append(ks, k)
	}
	sort.Strings(ks)
	for _, k := range ks {
		v, ok := found[k]
		c.Check(rule, key+":"+unquote(k), ok && preds[k](v), f.Pos(), fmt.Sprintf("external %s member %s = %s", key, k, v))
	}
}

// oneAppendPerIteration: in the outermost loop of f, exactly one append to an accumulator of sliceType whose
// block is executed on every iteration that reaches the back edge without an error return.
func (c *Ctx) oneAppendPerIteration(rule, key string, f *ssa.Function, sliceType string) {
	var apps []*ssa.Call
	forEachInstr(f, func(in ssa.Instruction) {
		if cl, ok := in.(*ssa.Call); ok {
			if b, isB := cl.Call.Value.(*ssa.Builtin); isB && b.Name() == "append" && typeShort(cl.Type()) == sliceType {
				apps = append(apps, cl)
			}
		}
	})
	if len(apps) != 1 {
		c.Check(rule, key, false, f.Pos(), fmt.Sprintf("expected exactly one append to a %s accumulator, found %d", sliceType, len(apps)))
		return
	}
	ap := apps[0]
	ok := false
	var w []string
	for _, l := range naturalLoops(f) {
		if !l.blocks[ap.Block()] {
			continue
		}
		// the append's block must be on every path from body entry to the back edge: cut its out-edges
		outer := true
		for _, l2 := range naturalLoops(f) {
			if l2 != l && l2.blocks[l.header] && len(l2.blocks) > len(l.blocks) {
				outer = false
			}
		}
		if !outer {
			continue
		}
		cut := map[edge]bool{}
		for _, s := range ap.Block().Succs {
			cut[edge{from: ap.Block(), to: s}] = true
		}
		ok = true
		for _, e := range l.bodyEntries() {
			if e == ap.Block() {
				continue
			}
			seen := reach(e, cut)
			for b := range seen {
				if b == ap.Block() {
					continue
				}
				for _, s := range b.Succs {
					if s == l.header && l.blocks[b] {
						ok = false
						w = c.witnessPath(seen, b)
					}
				}
			}
		}
	}
	c.Check(rule, key, ok, ap.Pos(), "each iteration that continues appends exactly one element (no element is skipped or emitted twice)", w...)
}

// keyMaterialTable: which external member receives the key material, per (has JWK, type).
func (c *Ctx) keyMaterialTable(pk *ssa.Function) {
	// the stores may sit in processKeys itself or in a helper that receives the external key map
	type scanJob struct {
		f     *ssa.Function
		env   Env
		isMap func(v ssa.Value) bool
	}
	jobs := []scanJob{{pk, nil, func(v ssa.Value) bool {
		mm, isMM := v.(*ssa.MakeMap)
		return isMM && typeShort(mm.Type()) == "document.PublicKey"
	}}}
	forEachInstr(pk, func(in ssa.Instruction) {
		cl, ok := in.(*ssa.Call)
		if !ok {
			return
		}
		g := cl.Call.StaticCallee()
		if g == nil || !inModule(g) || g.Blocks == nil {
			return
		}
		for i, a := range cl.Call.Args {
			if mm, isMM := a.(*ssa.MakeMap); isMM && typeShort(mm.Type()) == "document.PublicKey" && i < len(g.Params) {
				p := g.Params[i]
				jobs = append(jobs, scanJob{g, c.calleeEnv(&cl.Call, g, nil), func(v ssa.Value) bool { return v == ssa.Value(p) }})
			}
		}
	})
	// atoms of the decision: what the stores may depend on
	atoms := []string{"jwk", "t2018", "t2020", "b58", "mb"}
	atomOf := func(cp string) (string, bool, bool) {
		cp = strings.ReplaceAll(cp, "(document.PublicKey).", "")
		cp = keyElemRe.ReplaceAllString(cp, "k")
		switch cp {
		case "(PublicKeyJwk(k) != nil)":
			return "jwk", true, true
		case "(PublicKeyJwk(k) == nil)":
			return "jwk", false, true
		case `(Type(k) == "Ed25519VerificationKey2018")`, `("Ed25519VerificationKey2018" == Type(k))`:
			return "t2018", true, true
		case `(Type(k) != "Ed25519VerificationKey2018")`:
			return "t2018", false, true
		case `(Type(k) == "Ed25519VerificationKey2020")`, `("Ed25519VerificationKey2020" == Type(k))`:
			return "t2020", true, true
		case `(Type(k) != "Ed25519VerificationKey2020")`:
			return "t2020", false, true
		case `(PublicKeyBase58(k) != "")`, `(len(PublicKeyBase58(k)) > 0)`, `(len(PublicKeyBase58(k)) != 0)`:
			return "b58", true, true
		case `(PublicKeyBase58(k) == "")`, `(len(PublicKeyBase58(k)) == 0)`:
			return "b58", false, true
		case `(PublicKeyMultibase(k) != "")`, `(len(PublicKeyMultibase(k)) > 0)`, `(len(PublicKeyMultibase(k)) != 0)`:
			return "mb", true, true
		case `(PublicKeyMultibase(k) == "")`, `(len(PublicKeyMultibase(k)) == 0)`:
			return "mb", false, true
		}
		return "", false, false
	}
	type trow struct {
		asg    map[string]bool
		member string
		val    string
	}
	var trows []trow
	var undecided []string
	typeAtom := map[string]string{`"Ed25519VerificationKey2018"`: "t2018", `"Ed25519VerificationKey2020"`: "t2020"}
	// pathAssignments: the partial assignments of the atoms under which blk is reached from the entry of its function
	// (every acyclic path; a path that needs an atom both ways is infeasible). Conditions that are not atoms but mention
	// the key's accessors are reported.
	pathAssignments := func(blk *ssa.BasicBlock, env Env) []map[string]bool {
		fn := blk.Parent()
		enc := func(m map[string]bool) string {
			var ks []string
			for k, v := range m {
				ks = append(ks, fmt.Sprintf("%s=%v", k, v))
			}
			sort.Strings(ks)
			return strings.Join(ks, ",")
		}
		states := map[*ssa.BasicBlock]map[string]map[string]bool{fn.Blocks[0]: {"": {}}}
		// reverse post-order over forward edges (an edge to a dominator of its source is a back edge)
		var order []*ssa.BasicBlock
		seen := map[*ssa.BasicBlock]bool{}
		var dfs func(b *ssa.BasicBlock)
		dfs = func(b *ssa.BasicBlock) {
			seen[b] = true
			for _, s := range b.Succs {
				if !seen[s] && !s.Dominates(b) {
					dfs(s)
				}
			}
			order = append(order, b)
		}
		dfs(fn.Blocks[0])
		for i := len(order) - 1; i >= 0; i-- {
			b := order[i]
			if b == blk {
				break
			}
			cur := states[b]
			if len(cur) == 0 {
				continue
			}
			atom, pol, isAtom := "", false, false
			if iff, isIf := b.Instrs[len(b.Instrs)-1].(*ssa.If); isIf {
				cond := iff.Cond
				neg := false
				for {
					u, isU := cond.(*ssa.UnOp)
					if !isU || u.Op != token.NOT {
						break
					}
					cond, neg = u.X, !neg
				}
				cp := c.Path(cond, env)
				atom, pol, isAtom = atomOf(cp)
				if neg {
					pol = !pol
				}
				// "the key's type has an entry in the table of encoders": false means it is none of the table's types
				if ex, isEx := cond.(*ssa.Extract); isEx && ex.Index == 1 && !isAtom {
					if lk, isLk := ex.Tuple.(*ssa.Lookup); isLk {
						if _, tbl := c.tableCallees(extractOf2(lk, 0)); len(tbl) > 0 && strings.HasSuffix(keyElemRe.ReplaceAllString(c.Path(lk.Index, env), "k"), ").Type(k)") {
							notFound := 1
							if neg {
								notFound = 0
							}
							for si, sc := range b.Succs {
								if sc.Dominates(b) {
									continue
								}
								for _, m := range cur {
									nm := m
									if si == notFound {
										nm = map[string]bool{}
										for k2, v2 := range m {
											nm[k2] = v2
										}
										conflict := false
										for kp := range tbl {
											at := typeAtom[kp]
											if at == "" {
												undecided = append(undecided, "table key "+kp)
												continue
											}
											if have, set := nm[at]; set && have {
												conflict = true
											}
											nm[at] = false
										}
										if conflict {
											continue
										}
									}
									if states[sc] == nil {
										states[sc] = map[string]map[string]bool{}
									}
									states[sc][enc(nm)] = nm
								}
							}
							continue
						}
					}
				}
				isErrTest := false
				if bo, isB := cond.(*ssa.BinOp); isB && (isErrType(bo.X.Type()) || isErrType(bo.Y.Type())) {
					isErrTest = true
				}
				if !isAtom && !isErrTest && !strings.Contains(cp, "#1") && (strings.Contains(cp, ").Type(") || strings.Contains(cp, "PublicKeyJwk(") || strings.Contains(cp, "PublicKeyBase58(") || strings.Contains(cp, "PublicKeyMultibase(")) {
					undecided = append(undecided, cp)
				}
			}
			for si, sc := range b.Succs {
				if sc.Dominates(b) {
					continue
				}
				for _, m := range cur {
					nm := m
					if isAtom {
						want := pol == (si == 0)
						if have, set := m[atom]; set {
							if have != want {
								continue
							}
						} else {
							nm = map[string]bool{atom: want}
							for k, v := range m {
								nm[k] = v
							}
						}
					}
					if states[sc] == nil {
						states[sc] = map[string]map[string]bool{}
					}
					states[sc][enc(nm)] = nm
				}
			}
		}
		var out []map[string]bool
		var ks []string
		for k := range states[blk] {
			ks = append(ks, k)
		}
		sort.Strings(ks)
		for _, k := range ks {
			out = append(out, states[blk][k])
		}
		return out
	}
	var emitBase []map[string]bool
	var emit func(blk *ssa.BasicBlock, env Env, k, v string)
	emit = func(blk *ssa.BasicBlock, env Env, k, v string) {
		if k != "publicKeyJwk" && k != "publicKeyBase58" && k != "publicKeyMultibase" {
			return
		}
		val := "?"
		switch {
		case strings.HasPrefix(v, "github.com/btcsuite/btcutil/base58.Encode(") && strings.Contains(v, "getED2519PublicKey("):
			val = "base58(ed25519 key from JWK)"
		case strings.Contains(v, "go-multibase.Encode(") && strings.Contains(v, "getED2519PublicKey(") && strings.Contains(v, "go-multibase.Encode(122,"):
			val = "multibase-base58btc(ed25519 key from JWK)"
		case strings.HasSuffix(keyElemRe.ReplaceAllString(v, "k"), ").PublicKeyJwk(k)"):
			val = "jwk passthrough"
		case strings.HasSuffix(keyElemRe.ReplaceAllString(v, "k"), ").PublicKeyBase58(k)"):
			val = "base58 passthrough"
		case strings.HasSuffix(keyElemRe.ReplaceAllString(v, "k"), ").PublicKeyMultibase(k)"):
			val = "multibase passthrough"
		case v == "nil":
			val = "nil"
		default:
			val = v
		}
		for _, m := range pathAssignments(blk, env) {
			// (a row produced inside a table entry's function: the conditions of the call site and the entry's key apply too)
			bases := []map[string]bool{{}}
			if emitBase != nil {
				bases = emitBase
			}
			for _, base := range bases {
				mm := map[string]bool{}
				okM := true
				for a, v := range base {
					mm[a] = v
				}
				for a, v := range m {
					if have, set := mm[a]; set && have != v {
						okM = false
					}
					mm[a] = v
				}
				if okM {
					trows = append(trows, trow{mm, k, val})
				}
			}
		}
	}
	for _, job := range jobs {
		env := job.env
		forEachInstr(job.f, func(in ssa.Instruction) {
			mu, ok := in.(*ssa.MapUpdate)
			if !ok || !job.isMap(mu.Map) {
				return
			}
			// the member and its value chosen by a helper that hands both back: one row per accepting exit of the helper
			if ke, isKE := mu.Key.(*ssa.Extract); isKE {
				muVal := mu.Value
				if mi, isMI := muVal.(*ssa.MakeInterface); isMI {
					muVal = mi.X
				}
				if ve, isVE := muVal.(*ssa.Extract); isVE && ve.Tuple == ke.Tuple {
					if hc, isC := ke.Tuple.(*ssa.Call); isC {
						// … chosen by a function looked up in a package-level table keyed by the key's type: one row per
						// entry and accepting exit, under the call site's conditions and "the type is that entry's key"
						if lk, tbl := c.tableCallees(hc.Call.Value); lk != nil && len(tbl) > 0 && strings.HasSuffix(keyElemRe.ReplaceAllString(c.Path(lk.Index, env), "k"), ").Type(k)") {
							okTbl := true
							for kp := range tbl {
								if typeAtom[kp] == "" {
									okTbl = false
								}
							}
							if okTbl {
								site := pathAssignments(mu.Block(), env)
								for kp, g := range tbl {
									if g.Blocks == nil {
										continue
									}
									var bases []map[string]bool
									for _, sa := range site {
										b := map[string]bool{}
										for a, v := range sa {
											b[a] = v
										}
										for _, at := range typeAtom {
											b[at] = at == typeAtom[kp]
										}
										bases = append(bases, b)
									}
									genv := c.calleeEnv(&hc.Call, g, env)
									emitBase = bases
									for _, r := range returnsOf(g) {
										if maySucceed(r) && ke.Index < len(r.Results) && ve.Index < len(r.Results) {
											emit(r.Block(), genv, unquote(c.Path(returnedValue(r, ke.Index), genv)), c.Path(returnedValue(r, ve.Index), genv))
										}
									}
									emitBase = nil
								}
								return
							}
						}
						if g := hc.Call.StaticCallee(); g != nil && inModule(g) && g.Blocks != nil {
							genv := c.calleeEnv(&hc.Call, g, env)
							for _, r := range returnsOf(g) {
								if maySucceed(r) && ke.Index < len(r.Results) && ve.Index < len(r.Results) {
									emit(r.Block(), genv, unquote(c.Path(returnedValue(r, ke.Index), genv)), c.Path(returnedValue(r, ve.Index), genv))
								}
							}
							return
						}
					}
				}
			}
			emit(mu.Block(), env, unquote(c.Path(mu.Key, env)), c.Path(mu.Value, env))
		})
	}
	// the table, assignment by assignment (a key is of at most one type)
	expected := func(m map[string]bool) string {
		switch {
		case m["jwk"] && m["t2018"]:
			return "publicKeyBase58 := base58(ed25519 key from JWK)"
		case m["jwk"] && m["t2020"]:
			return "publicKeyMultibase := multibase-base58btc(ed25519 key from JWK)"
		case m["jwk"]:
			return "publicKeyJwk := jwk passthrough"
		case m["b58"]:
			return "publicKeyBase58 := base58 passthrough"
		case m["mb"]:
			return "publicKeyMultibase := multibase passthrough"
		}
		return "publicKeyJwk := nil"
	}
	var diffs []string
	nAsg := 0
	for bits := 0; bits < 1<<len(atoms); bits++ {
		m := map[string]bool{}
		var label []string
		for i, a := range atoms {
			m[a] = bits&(1<<i) != 0
			label = append(label, fmt.Sprintf("%s=%v", a, m[a]))
		}
		if m["t2018"] && m["t2020"] {
			continue
		}
		nAsg++
		got := map[string]bool{}
		for _, r := range trows {
			okRow := true
			for k, v := range r.asg {
				if m[k] != v {
					okRow = false
				}
			}
			if okRow {
				got[r.member+" := "+r.val] = true
			}
		}
		var gs []string
		for g := range got {
			gs = append(gs, g)
		}
		sort.Strings(gs)
		if len(gs) != 1 || gs[0] != expected(m) {
			diffs = append(diffs, fmt.Sprintf("%s: stores %v (expected [%s])", strings.Join(label, " "), gs, expected(m)))
		}
	}
	if len(diffs) > 6 {
		diffs = append(diffs[:6], fmt.Sprintf("… and %d more", len(diffs)-6))
	}
	for _, u := range undecided {
		diffs = append(diffs, "condition on the key not understood: "+u)
	}
	c.Check("C18.P1", "key-material-table", len(diffs) == 0 && len(trows) >= 6, pk.Pos(), fmt.Sprintf("key material member and value for every combination of (has JWK, type 2018, type 2020, has base58, has multibase): %d combinations, %d store rows", nAsg, len(trows)), diffs...)
}

func (c *Ctx) metadataMapping(pMeta string) {
	cdm := c.Method(pMeta, "Metadata", "CreateDocumentMetadata")
	if cdm == nil {
		c.Unresolved("C18.P2", "(*Metadata).CreateDocumentMetadata")
		return
	}
	c.Analysed(cdm)
	// the function that fills the metadata map: CreateDocumentMetadata, or the unexported building phase it calls
	// (whose values are rendered in CreateDocumentMetadata's frame, validation helpers with one success exit inlined)
	constUpdates := func(f *ssa.Function) int {
		n := 0
		forEachInstr(f, func(in ssa.Instruction) {
			if mu, ok := in.(*ssa.MapUpdate); ok {
				if _, isK := mu.Key.(*ssa.Const); isK {
					n++
				}
			}
		})
		return n
	}
	host, henv := cdm, Env(nil)
	if constUpdates(cdm) < 5 {
		for _, g := range c.helpersOf(cdm, 1) {
			if constUpdates(g) > constUpdates(host) {
				for _, cl := range callsTo(cdm, g) {
					c.inlineHelpers = true
					host, henv = g, c.calleeEnv(&cl.Call, g, nil)
					c.inlineHelpers = false
				}
			}
		}
		c.Analysed(host)
	}
	c.condEnv = henv
	defer func() { c.condEnv = nil }()
	type upd struct{ key, val, inl string }
	var ups []upd
	tenvs := c.tableLoopEnvs(host, henv)
	// stores made by an unexported helper that is handed the map being filled and the member's name: the helper's store,
	// under the arguments of each call
	type hstore struct {
		mu  *ssa.MapUpdate
		env Env
		via *ssa.Call
	}
	var hstores []hstore
	// (helpers called by the function that fills the document metadata, and — when that is itself a phase of
	// CreateDocumentMetadata — the other phases CreateDocumentMetadata calls)
	type scanFrom struct {
		f   *ssa.Function
		env Env
	}
	froms := []scanFrom{{host, henv}}
	if host != cdm {
		froms = append(froms, scanFrom{cdm, nil})
	}
	for _, from := range froms {
		from := from
		forEachInstr(from.f, func(in ssa.Instruction) {
			henv := from.env
			cl, ok := in.(*ssa.Call)
			if !ok {
				return
			}
			// a function literal of the filling function, called with the member's name: its store into the captured map
			if lit := localLiteral(cl); lit != nil && lit.Parent() == from.f {
				lenv := c.calleeEnv(&cl.Call, lit, henv)
				forEachInstr(lit, func(in2 ssa.Instruction) {
					if mu, isMU := in2.(*ssa.MapUpdate); isMU && strings.HasPrefix(c.Path(mu.Map, lenv), "makemap<") {
						if k := c.Path(mu.Key, lenv); strings.HasPrefix(k, `"`) {
							hstores = append(hstores, hstore{mu, lenv, cl})
						}
					}
				})
				return
			}
			g := cl.Call.StaticCallee()
			if g == nil || g == host || !inModule(g) || g.Blocks == nil || g.Object() == nil || g.Object().Exported() || pkgPathOf(g) != pkgPathOf(host) {
				return
			}
			// … or a helper that makes a map, fills it and hands it back (the method-metadata part built on its own)
			c.inlineHelpers = true // (arguments that come out of a one-exit phase read as what that phase returns)
			genvR := c.calleeEnv(&cl.Call, g, henv)
			c.inlineHelpers = false
			for _, r := range successReturns(g) {
				if len(r.Results) == 0 {
					continue
				}
				mm, isMM := stripConv(returnedValue(r, 0)).(*ssa.MakeMap)
				if !isMM {
					continue
				}
				for _, rf := range *mm.Referrers() {
					if mu, isMU := rf.(*ssa.MapUpdate); isMU && mu.Map == ssa.Value(mm) {
						if k := c.Path(mu.Key, genvR); strings.HasPrefix(k, `"`) {
							dup := false
							for _, h := range hstores {
								if h.mu == mu {
									dup = true
								}
							}
							if !dup {
								hstores = append(hstores, hstore{mu, genvR, cl})
							}
						}
					}
				}
			}
			for i, a := range cl.Call.Args {
				if _, isMM := a.(*ssa.MakeMap); !isMM || i >= len(g.Params) {
					continue
				}
				p := g.Params[i]
				c.inlineHelpers = true
				genv := c.calleeEnv(&cl.Call, g, henv)
				c.inlineHelpers = false
				forEachInstr(g, func(in2 ssa.Instruction) {
					if mu, isMU := in2.(*ssa.MapUpdate); isMU && mu.Map == ssa.Value(p) {
						if k := c.Path(mu.Key, genv); strings.HasPrefix(k, `"`) {
							hstores = append(hstores, hstore{mu, genv, cl})
						}
					}
				})
			}
		})
	}
	forEachInstr(host, func(in ssa.Instruction) {
		if mu, ok := in.(*ssa.MapUpdate); ok {
			if _, isK := mu.Key.(*ssa.Const); isK {
				ups = append(ups, upd{unquote(c.Path(mu.Key, nil)), c.Path(mu.Value, henv), c.InlPath(mu.Value, henv)})
				return
			}
			// members stored by a loop over a literal list of names: one store per name
			for _, te := range tenvs {
				if k := c.Path(mu.Key, te); strings.HasPrefix(k, `"`) {
					ups = append(ups, upd{unquote(k), c.Path(mu.Value, te), c.InlPath(mu.Value, te)})
				}
			}
		}
	})
	// (a time is reported as the RFC 3339 text of the anchoring time in UTC, whatever zone the process runs in: the
	// seconds made a time.Time, moved to UTC, formatted — Format alone renders in the local zone)
	utcText := func(src string) func(string) bool {
		return func(s string) bool {
			if os.Getenv("STCHECK_OBLS") != "" {
				fmt.Fprintln(os.Stderr, "TIME", s)
			}
			i := strings.Index(s, "(time.Time).Format(")
			j := strings.Index(s, "(time.Time).UTC(")
			if j < 0 && strings.Contains(s, "time.UTC") {
				j = strings.Index(s, "(time.Time).In(")
			}
			return strings.Contains(s, src) && i >= 0 && j > i && !strings.Contains(s, ".Local(")
		}
	}
	want := map[string]func(string) bool{
		"published":             func(s string) bool { return s == `$2["published"]#0` },
		"recoveryCommitment":    pathIs("$1.RecoveryCommitment"),
		"updateCommitment":      pathIs("$1.UpdateCommitment"),
		"anchorOrigin":          pathIs("$1.AnchorOrigin"),
		"unpublishedOperations": func(s string) bool { return strings.HasSuffix(s, "($1.UnpublishedOperations)") },
		"publishedOperations":   func(s string) bool { return strings.HasSuffix(s, "($1.PublishedOperations)") },
		"method": func(s string) bool {
			return strings.HasPrefix(s, "makemap<") || (strings.HasPrefix(s, "(*versions/1_0/doctransformer/metadata.Metadata).") && strings.Contains(s, "($0,$1,"))
		},
		"deactivated":  pathIs("$1.Deactivated"),
		"canonicalId":  func(s string) bool { return s == `$2["canonicalId"]#0` },
		"equivalentId": func(s string) bool { return s == `$2["equivalentId"]#0` },
		"created":      utcText("$1.CreatedTime"),
		"versionId":    pathIs("$1.VersionID"),
		"updated":      utcText("$1.UpdatedTime"),
	}
	for _, hs := range hstores {
		k, v := unquote(c.Path(hs.mu.Key, hs.env)), c.Path(hs.mu.Value, hs.env)
		// (a value handed through a one-exit validation / extraction phase reads as what that phase returns)
		if p, known := want[k]; known && !p(v) {
			if v2 := c.InlPath(hs.mu.Value, hs.env); p(v2) {
				v = v2
			}
		}
		ups = append(ups, upd{k, v, ""})
	}
	seen := map[string]bool{}
	for _, u := range ups {
		p, ok := want[u.key]
		seen[u.key] = true
		// (a value made by a one-exit helper reads as what the helper returns)
		if ok && !p(u.val) && u.inl != "" && p(u.inl) {
			u.val = u.inl
		}
		c.Check("C18.P2", "metadata:"+u.key, ok && p(u.val), cdm.Pos(), fmt.Sprintf("metadata member %q = %s", u.key, u.val))
	}
	var missing []string
	for k := range want {
		if !seen[k] {
			missing = append(missing, k)
		}
	}
	sort.Strings(missing)
	c.Check("C18.P2", "metadata:all-members-present", len(missing) == 0, cdm.Pos(), fmt.Sprintf("metadata members not produced: %v", missing))
	// each member is reported whenever its own source says so: the conditions under which a member is stored mention only
	// that member's source (and the documented extras) — e.g. the deactivated flag does not depend on `published`
	allowedConds := map[string][]string{
		"published":             {},
		"recoveryCommitment":    {"RecoveryCommitment"},
		"updateCommitment":      {"UpdateCommitment"},
		"anchorOrigin":          {"AnchorOrigin"},
		"unpublishedOperations": {"includeUnpublishedOperations", "UnpublishedOperations"},
		"publishedOperations":   {"includePublishedOperations", "PublishedOperations"},
		"method":                {},
		"deactivated":           {"Deactivated"},
		"canonicalId":           {`["canonicalId"]`},
		"equivalentId":          {`["equivalentId"]`},
		"created":               {`["published"]`},
		"versionId":             {"VersionID"},
		"updated":               {"VersionID", "UpdatedTime"},
	}
	presence := map[string]*regexp.Regexp{
		"recoveryCommitment": regexp.MustCompile(`^\((\$1\.RecoveryCommitment (!=|==) ""|len\(\$1\.RecoveryCommitment\) (!=|==|>|<=) 0)\)=(true|false)$`),
		"updateCommitment":   regexp.MustCompile(`^\((\$1\.UpdateCommitment (!=|==) ""|len\(\$1\.UpdateCommitment\) (!=|==|>|<=) 0)\)=(true|false)$`),
		"updated":            regexp.MustCompile(`^\(\$1\.VersionID (!=|==) ""\)=(true|false)$|^\(len\(\$1\.VersionID\) (!=|==|>|<=) 0\)=(true|false)$|^\((\$1\.UpdatedTime (>|!=|==|<=) 0|0 (<|!=|==|>=) \$1\.UpdatedTime|\$1\.UpdatedTime >= 1)\)=(true|false)$`),
		"anchorOrigin":       regexp.MustCompile(`^\(\$1\.AnchorOrigin (!=|==) nil(:[^)]*)?\)=(true|false)$`),
	}
	loopControl := regexp.MustCompile(`^\((len\(.*\) <= ι|ι < len\(.*\)|\d+ <= ι|ι < \d+)\)=true$`)
	errNilRe := regexp.MustCompile(`^\([^ ]*versions/1_0/doctransformer/metadata\.[A-Za-z]+\(.*\)#\d == nil\)=true$`)
	entryGuard := func(cnd string) bool {
		// (the validation phase succeeded)
		if errNilRe.MatchString(cnd) {
			return true
		}
		return loopControl.MatchString(cnd) || strings.HasPrefix(cnd, "($1 ") || strings.HasPrefix(cnd, "($1.Doc ") || strings.HasPrefix(cnd, "($2 ") || cnd == `$2["published"]#1=true`
	}
	condCheck := func(mu *ssa.MapUpdate, env Env, via *ssa.Call) {
		key := unquote(c.Path(mu.Key, env))
		allow, known := allowedConds[key]
		if !known {
			return
		}
		var foreign []string
		conds := c.condsOf(mu.Block())
		if via != nil {
			c.condEnv = env
			conds = c.condsOf(mu.Block())
			c.condEnv = henv
			conds = append(conds, c.condsOf(via.Block())...)
		}
		for _, cnd := range conds {
			if entryGuard(cnd) {
				continue
			}
			okC := false
			for _, a := range allow {
				if strings.Contains(cnd, a) {
					okC = true
				}
			}
			// the optional members of the resolution model are reported whenever they are there: the test is on the whole
			// value (not nil / not empty), not on one of the shapes it may have (an anchor origin need not be a string)
			if okC && presence[key] != nil && !presence[key].MatchString(cnd) {
				okC = false
			}
			if !okC {
				foreign = append(foreign, cnd)
			}
		}
		c.Check("C18.P2", "metadata:"+key+":conditions", len(foreign) == 0, mu.Pos(), fmt.Sprintf("member %q is stored under conditions on its own source only (foreign conditions: %v)", key, foreign))
	}
	forEachInstr(host, func(in ssa.Instruction) {
		if mu, ok := in.(*ssa.MapUpdate); ok {
			if _, isK := mu.Key.(*ssa.Const); isK {
				condCheck(mu, nil, nil)
			}
		}
	})
	for _, hs := range hstores {
		condCheck(hs.mu, hs.env, hs.via)
	}
	// created only when published
	evCreated := func(in ssa.Instruction) bool {
		mu, ok := in.(*ssa.MapUpdate)
		return ok && c.Path(mu.Key, nil) == `"created"`
	}
	okC, w, _ := c.Guard(cdm, nil, &GCheck{Name: "published is true", NoDescend: true, MatchOK: nil, MatchCmp: nil, MatchCall: nil, Alts: []*GCheck{{Name: "published.(bool)", MatchCall: nil}}}, evCreated)
	_ = okC
	_ = w
	// operation literals
	for _, lit := range []struct {
		fn, typ string
		fields  map[string]string
	}{
		{"getPublishedOperations", "PublishedOperation", map[string]string{"Type": "Type", "OperationRequest": "OperationRequest", "TransactionTime": "TransactionTime", "TransactionNumber": "TransactionNumber", "ProtocolVersion": "ProtocolVersion", "CanonicalReference": "CanonicalReference", "EquivalentReferences": "EquivalentReferences", "AnchorOrigin": "AnchorOrigin"}},
		{"getUnpublishedOperations", "UnpublishedOperation", map[string]string{"Type": "Type", "OperationRequest": "OperationRequest", "TransactionTime": "TransactionTime", "ProtocolVersion": "ProtocolVersion", "AnchorOrigin": "AnchorOrigin"}},
	} {
		f := c.Fn(pMeta, lit.fn)
		nt := c.NamedType(pMeta, lit.typ)
		if f == nil || nt == nil {
			c.Unresolved("C18.P2", "metadata."+lit.fn)
			continue
		}
		c.Analysed(f)
		// the literal, or the constructor helper that builds it from the operation (values rendered in f's frame)
		objs := c.builtObjs(f, nt)
		if len(objs) != 1 {
			c.Check("C18.P2", lit.typ+":literal", false, f.Pos(), "expected one literal")
			continue
		}
		ft := map[string][]string{}
		for _, fs := range c.storesIntoObj(objs[0]) {
			ft[fs.Field] = append(ft[fs.Field], c.fsPath(fs))
		}
		for i := 0; i < numFields(nt); i++ {
			fld := fieldName(nt, i)
			src, want := lit.fields[fld]
			got := ft[fld]
			ok := want && len(got) == 1 && got[0] == "$0[ι]."+src
			c.Check("C18.P2", lit.typ+"."+fld, ok, objs[0].v.Pos(), fmt.Sprintf("%s.%s = %v (expected the same-named field of the anchored operation)", lit.typ, fld, got))
		}
	}
	// de-duplication keyed by canonical reference
	if f := c.Fn(pMeta, "getPublishedOperations"); f != nil {
		dd := false
		// a local set searched and filled with the operation's canonical reference (directly, or through the methods of
		// a set type)
		forEachInstr(f, func(in ssa.Instruction) {
			if mm, ok := in.(*ssa.MakeMap); ok {
				look, fill := map[string]bool{}, map[string]bool{}
				c.setOps(mm, nil, 0, look, fill)
				if look["$0[ι].CanonicalReference"] && fill["$0[ι].CanonicalReference"] && len(look) == 1 && len(fill) == 1 {
					dd = true
				}
			}
			// … or inside a de-duplication helper that is handed the list and the key function
			if cl, isC := in.(*ssa.Call); isC {
				if g := cl.Call.StaticCallee(); g != nil && inModule(g) && g.Blocks != nil && len(cl.Call.Args) > 0 && c.Path(cl.Call.Args[0], nil) == "$0" {
					genv := c.calleeEnv(&cl.Call, g, nil)
					forEachInstr(g, func(in2 ssa.Instruction) {
						if mm, ok := in2.(*ssa.MakeMap); ok {
							look, fill := map[string]bool{}, map[string]bool{}
							c.setOps(mm, genv, 0, look, fill)
							if look["$0[ι].CanonicalReference"] && fill["$0[ι].CanonicalReference"] && len(look) == 1 && len(fill) == 1 {
								dd = true
							}
						}
					})
				}
			}
		})
		c.Check("C18.P2", "published:dedup-by-canonical-reference", dd, f.Pos(), "published operations are de-duplicated by CanonicalReference")
	}
	c.Min("C18.P2", 13+13+13)
}

var _ = token.ADD

// qualifiedID: v is the qualified id of an object of the document — relative ("#" + object id) when the transformer's
// @base flag is set, absolute (document id + "#" + object id) when it is not — however it is put together (a helper
// that builds the whole id, a prefix computed once, plain concatenation). Decided on the concatenation form of v with
// the flag assumed true, then false.
func (c *Ctx) qualifiedID(v ssa.Value, baseFlag, objMarker string) (bool, string) {
	form := func(flag bool) []string {
		oldS, oldV, oldL := c.assumeSuffix, c.assumeValue, c.phiEdgeLive
		c.assumeSuffix, c.assumeValue = "."+baseFlag, flag
		c.phiEdgeLive = func(phi *ssa.Phi, i int) bool {
			f := phi.Parent()
			cut := c.pruned(f, nil)
			live := reach(f.Blocks[0], cut)
			pred := phi.Block().Preds[i]
			_, l := live[pred]
			return l && !cut[edge{from: pred, to: phi.Block()}]
		}
		defer func() { c.assumeSuffix, c.assumeValue, c.phiEdgeLive = oldS, oldV, oldL }()
		return strings.Split(c.concatForm(v, nil), " ++ ")
	}
	rel, abs := form(true), form(false)
	detail := fmt.Sprintf("under @base: %s; otherwise: %s", strings.Join(rel, " ++ "), strings.Join(abs, " ++ "))
	if len(rel) != 2 || rel[0] != `"#"` || !strings.Contains(rel[1], objMarker) || !strings.Contains(rel[1], "[ι]") {
		return false, detail
	}
	if len(abs) != 3 || abs[1] != `"#"` || abs[2] != rel[1] || !strings.Contains(abs[0], ").ID(") || !strings.Contains(abs[0], ".Document") || strings.Contains(abs[0], "[ι]") {
		return false, detail
	}
	return true, detail
}

// qualifiedIDRule: the "id" member of the freshly made external object map in f is the object's qualified id.
func (c *Ctx) qualifiedIDRule(rule, key string, f *ssa.Function, mapType, baseFlag, objMarker string) {
	n := 0
	forEachInstr(f, func(in ssa.Instruction) {
		mu, ok := in.(*ssa.MapUpdate)
		if !ok {
			return
		}
		mm, isMM := mu.Map.(*ssa.MakeMap)
		if !isMM || typeShort(mm.Type()) != mapType || c.Path(mu.Key, nil) != `"id"` {
			return
		}
		n++
		okID, detail := c.qualifiedID(mu.Value, baseFlag, objMarker)
		c.Check(rule, key+":id", okID, mu.Pos(), fmt.Sprintf("external %s member \"id\" is '#'+id under @base, did+'#'+id otherwise (%s)", key, detail))
	})
	if n == 0 {
		c.Check(rule, key+":id", false, f.Pos(), "no \"id\" member stored in a fresh "+mapType)
	}
}

// keyElemRe: the key under consideration in the loop over the internal document's keys — the element of
// internal.PublicKeys() or of a key list the function is handed.
var keyElemRe = regexp.MustCompile(`\(document\.DIDDocument\)\.PublicKeys\([^\[\]]*\)\[ι\]|\$\d+\[ι\]`)

// transformStepsRule: every accepting exit of the DID transformer's TransformDocument lies behind both the key step and
// the service step (an early "nothing to do" return before one of them drops that part of the document).
func (c *Ctx) transformStepsRule(rule string) {
	const pDT = "versions/1_0/doctransformer/didtransformer"
	td := c.Method(pDT, "Transformer", "TransformDocument")
	pk := c.Method(pDT, "Transformer", "processKeys")
	ps := c.Method(pDT, "Transformer", "processServices")
	if td == nil || pk == nil || ps == nil {
		c.Unresolved(rule, "didtransformer TransformDocument / processKeys / processServices")
		return
	}
	c.CheckGuard(rule, "TransformDocument:keys-processed-on-every-accepting-path", td, nil, callTo("processKeys", pk))
	c.CheckGuard(rule, "TransformDocument:services-processed-on-every-accepting-path", td, nil, &GCheck{Name: "processServices called", NoDescend: true, MatchCall: func(c *Ctx, call *ssa.Call, env Env) bool {
		return call.Call.StaticCallee() == ps
	}})
}

// contextDedupRule: "one context per key type used": the test that keeps a key-type context from being added twice is
// an equality membership test on the list of contexts (a substring / prefix match drops a context that is contained in
// another one).
func (c *Ctx) contextDedupRule(rule string) {
	const pDT = "versions/1_0/doctransformer/didtransformer"
	pk := c.Method(pDT, "Transformer", "processKeys")
	if pk == nil {
		c.Unresolved(rule, "didtransformer processKeys")
		return
	}
	n, bad := 0, 0
	for _, h := range append([]*ssa.Function{pk}, c.helpersOf(pk, 1)...) {
		for _, cl := range findCalls(h, func(cl *ssa.Call) bool {
			g := cl.Call.StaticCallee()
			if g == nil || len(cl.Call.Args) != 2 || !isBoolType(cl.Type()) {
				return false
			}
			l, w := memberArgs(cl)
			return types.TypeString(l.Type().Underlying(), nil) == "[]string" && isStringType(w.Type())
		}) {
			n++
			if isM, _ := c.isMembershipFn(cl.Call.StaticCallee()); !isM {
				bad++
			}
		}
	}
	c.Check(rule, "key-context:dedup-by-equality", n >= 1 && bad == 0, pk.Pos(), fmt.Sprintf("%d membership test(s) on a list of strings in processKeys; each compares for equality (%d do not)", n, bad))
}

// genericIDRule: the generic transformer's result is identified by the id of the transformation info: after the id is
// stored in the result document nothing else is stored into it that could replace it (a member-by-member copy of the
// internal document AFTER the id lets an "id" member of the content win).
func (c *Ctx) genericIDRule(rule string) {
	td := c.Method("versions/1_0/doctransformer/doctransformer", "Transformer", "TransformDocument")
	if td == nil {
		c.Unresolved(rule, "doctransformer.TransformDocument")
		return
	}
	c.Analysed(td)
	var idStore *ssa.MapUpdate
	// (the body may sit in an unexported function the method forwards to)
	for _, h := range append([]*ssa.Function{td}, c.helpersOf(td, 2)...) {
		forEachInstr(h, func(in ssa.Instruction) {
			if mu, ok := in.(*ssa.MapUpdate); ok && c.Path(mu.Key, nil) == `"id"` && (strings.Contains(c.Path(mu.Value, nil), `["id"]`) || strings.Contains(c.InlPath(mu.Value, nil), `["id"]`)) {
				idStore = mu
			}
		})
	}
	if idStore != nil {
		td = idStore.Parent()
	}
	if idStore == nil {
		c.Check(rule, "generic:id-from-transformation-info", false, td.Pos(), "no store of info[\"id\"] under \"id\" into the result document")
		return
	}
	var later []string
	after := reach(idStore.Block(), nil)
	forEachInstr(td, func(in ssa.Instruction) {
		mu, ok := in.(*ssa.MapUpdate)
		if !ok || mu == idStore || c.Path(mu.Map, nil) != c.Path(idStore.Map, nil) {
			return
		}
		_, reachable := after[mu.Block()]
		if mu.Block() == idStore.Block() {
			reachable = instrBefore(idStore, mu)
		}
		if !reachable {
			return
		}
		if k, isK := mu.Key.(*ssa.Const); isK && c.Path(k, nil) != `"id"` {
			return
		}
		later = append(later, c.pos(mu.Pos())+": ["+c.Path(mu.Key, nil)+"]")
	})
	c.Check(rule, "generic:id-from-transformation-info", len(later) == 0, idStore.Pos(), "the id of the transformation info is the last thing stored under a possibly-\"id\" key of the result document", later...)
}

// unpublishedAllListedRule: every unpublished operation is listed: the entry for an operation is built on every
// iteration of the converting loop, under no condition (unpublished operations carry no canonical reference — a
// de-duplication copied from the published list keeps only the first of them).
func (c *Ctx) unpublishedAllListedRule(rule, pMeta string) {
	f := c.Fn(pMeta, "getUnpublishedOperations")
	nt := c.NamedType(pMeta, "UnpublishedOperation")
	if f == nil || nt == nil {
		c.Unresolved(rule, "metadata.getUnpublishedOperations")
		return
	}
	loopControl := regexp.MustCompile(`^\((len\(.*\) <= ι|ι < len\(.*\)|\d+ <= ι|ι < \d+)\)=(true|false)$`)
	// (a test that the list is not empty holds on every iteration anyway)
	nonEmpty := regexp.MustCompile(`^\((len\(\$0\) (!=|>) 0|0 (!=|<) len\(\$0\)|len\(\$0\) >= 1|1 <= len\(\$0\)|\$0 != nil:\[\][^)]*)\)=true$|^\((len\(\$0\) (==|<=) 0|0 (==|>=) len\(\$0\)|len\(\$0\) < 1|1 > len\(\$0\)|\$0 == nil:\[\][^)]*)\)=false$`)
	n := 0
	var bad []string
	for _, h := range append([]*ssa.Function{f}, c.helpersOf(f, 1)...) {
		for _, a := range allocsOf(h, nt) {
			n++
			for _, cnd := range c.condsOf(a.Block()) {
				if loopControl.MatchString(cnd) || nonEmpty.MatchString(cnd) || strings.HasPrefix(cnd, "next(range(") {
					continue
				}
				bad = append(bad, cnd)
			}
		}
	}
	c.Check(rule, "unpublished:every-operation-listed", n == 1 && len(bad) == 0, f.Pos(), fmt.Sprintf("the entry of an unpublished operation is built on every iteration, unconditionally (conditions: %v)", bad))
}

// relationshipListsSeparateRule: the lists of key references kept per verification relationship do not share storage:
// where processKeys starts them off in a map literal, every entry is a slice of its own (one pre-allocated slice placed
// under all five relationships lets an append under one overwrite what was appended under another).
func (c *Ctx) relationshipListsSeparateRule(rule string) {
	const pDT = "versions/1_0/doctransformer/didtransformer"
	pk := c.Method(pDT, "Transformer", "processKeys")
	if pk == nil {
		c.Unresolved(rule, "(*didtransformer.Transformer).processKeys")
		return
	}
	var bad []string
	n := 0
	for _, h := range append([]*ssa.Function{pk}, c.helpersOf(pk, 1)...) {
		used := map[ssa.Value]string{}
		forEachInstr(h, func(in ssa.Instruction) {
			mu, ok := in.(*ssa.MapUpdate)
			if !ok {
				return
			}
			mm, isMM := mu.Map.(*ssa.MakeMap)
			if !isMM || types.TypeString(mm.Type().Underlying(), nil) != "map[string][]interface{}" {
				return
			}
			_, constKey := mu.Key.(*ssa.Const)
			// the appends of the loop store append(m[k], …) back: those are not the literal's entries
			if cl, isC := mu.Value.(*ssa.Call); isC {
				if b, isB := cl.Call.Value.(*ssa.Builtin); isB && b.Name() == "append" {
					return
				}
			}
			n++
			v := mu.Value
			fresh := false
			switch x := v.(type) {
			case *ssa.MakeSlice:
				fresh = true
			case *ssa.Slice:
				// (a window of a shared block whose capacity is cut to the window cannot grow into its neighbour)
				_, fresh = x.X.(*ssa.Alloc)
				fresh = fresh || x.Max != nil
			case *ssa.Const:
				fresh = x.IsNil()
			}
			if k, isK := v.(*ssa.Const); isK && k.IsNil() {
				return
			}
			if !constKey {
				// entries stored in a loop over the relationship names: each from a slice made in that iteration
				if !fresh {
					bad = append(bad, fmt.Sprintf("%s: the list under %s starts from %s, which is not a slice made for it", c.pos(mu.Pos()), c.Path(mu.Key, nil), c.Path(v, nil)))
				}
				return
			}
			if prev, dup := used[v]; dup {
				bad = append(bad, fmt.Sprintf("%s: %s and %s start from the same slice", c.pos(mu.Pos()), prev, c.Path(mu.Key, nil)))
			} else if !fresh {
				bad = append(bad, fmt.Sprintf("%s: %s starts from %s, which is not a slice made for it", c.pos(mu.Pos()), c.Path(mu.Key, nil), c.Path(v, nil)))
			}
			used[v] = c.Path(mu.Key, nil)
		})
	}
	c.Check(rule, "relationship-lists:separate-storage", len(bad) == 0, pk.Pos(), fmt.Sprintf("%d relationship list(s) started in a literal, each with storage of its own", n), bad...)
}

// threeWayLess: less has a single exit returning `cmp.Or(cmp.Compare(a1, b1), …, cmp.Compare(ak, bk)) < 0` (or a single
// `cmp.Compare(a, b) < 0`; `> 0` gives neg): the compared pairs in order, as paths.
func (c *Ctx) threeWayLess(less *ssa.Function) (terms [][2]string, neg bool, ok bool) {
	rs := returnsOf(less)
	if len(rs) != 1 || len(rs[0].Results) != 1 || len(less.Blocks) != 1 {
		return nil, false, false
	}
	bo, isB := rs[0].Results[0].(*ssa.BinOp)
	if !isB || c.Path(bo.Y, nil) != "0" || (bo.Op != token.LSS && bo.Op != token.GTR) {
		return nil, false, false
	}
	neg = bo.Op == token.GTR
	compareOf := func(v ssa.Value) ([2]string, bool) {
		cl, isC := v.(*ssa.Call)
		if !isC || cl.Call.StaticCallee() == nil || len(cl.Call.Args) != 2 {
			return [2]string{}, false
		}
		g := cl.Call.StaticCallee()
		if o := g.Origin(); o != nil {
			g = o
		}
		if g.String() != "cmp.Compare" {
			return [2]string{}, false
		}
		if bt, isBasic := cl.Call.Args[0].Type().Underlying().(*types.Basic); !isBasic || bt.Info()&types.IsInteger == 0 {
			return [2]string{}, false // (floats have NaN, strings are not ranks)
		}
		return [2]string{c.Path(cl.Call.Args[0], nil), c.Path(cl.Call.Args[1], nil)}, true
	}
	if t, isT := compareOf(bo.X); isT {
		return [][2]string{t}, neg, true
	}
	cl, isC := bo.X.(*ssa.Call)
	if !isC || cl.Call.StaticCallee() == nil || len(cl.Call.Args) != 1 {
		return nil, false, false
	}
	g := cl.Call.StaticCallee()
	if o := g.Origin(); o != nil {
		g = o
	}
	if g.String() != "cmp.Or" {
		return nil, false, false
	}
	vs, okV := c.varargValues(cl.Call.Args[0])
	if !okV || len(vs) == 0 {
		return nil, false, false
	}
	for _, v := range vs {
		t, isT := compareOf(v)
		if !isT {
			return nil, false, false
		}
		terms = append(terms, t)
	}
	return terms, neg, true
}
