package main

import (
	"fmt"
	"os"
	"strings"
	"time"

	"golang.org/x/tools/go/ssa"
)

func timeNow() time.Time { return time.Now() }

// debugDump prints the SSA of functions whose name contains pat, with the access path of every value.
func (c *Ctx) debugDump(pat string) {
	for _, f := range c.Funcs {
		if !strings.Contains(f.String(), pat) {
			continue
		}
		fmt.Println("=====", f.String())
		f.WriteTo(os.Stdout)
		for _, b := range f.Blocks {
			for _, in := range b.Instrs {
				if v, ok := in.(ssa.Value); ok {
					fmt.Printf("  b%d %-8s = %s\n", b.Index, v.Name(), c.Path(v, nil))
				}
			}
		}
	}
}
