package main

import (
	"fmt"
	"go/constant"
	"go/token"
	"go/types"
	"os"
	"regexp"
	"sort"
	"strconv"
	"strings"

	"golang.org/x/tools/go/ssa"
)

func init() {
	props["C19"] = &propDef{extraPkgs: []string{jsonPatchPkg}, run: runC19, explanation: "Partial (panics raised by constructs in the module's own code and by the reviewed preconditions of third-party callees; not termination, stack depth or arbitrary third-party internals). Decided statically: a closed inventory of every panic-capable construct in the module functions reachable from the untrusted entry points — unchecked type assertions, dereferences (field access, load, pointer-receiver call, pass to a dereferencing callee) of pointers that JSON decoding can leave nil, index / slice expressions, explicit panic, integer division, make with computed size, definite nil dereferences (value tested nil on the path and then used), and interface-keyed map accesses and interface comparisons with possibly unhashable values, and calls with panicking preconditions (ed25519 key sizes; json-patch v4.1.0 Apply, which must run under a deferred recover that becomes an error, receive one operation per call and be preceded by a copy-into-itself check, because the library copy aliases nodes) — each discharged by a dominating guard found by the must-pass-through engine (through helper boundaries) or by a reviewed one-line reason keyed by function and expression. Anything undischarged is a violation naming the construct. The copy-into-itself check reads array-index tokens with the strconv function(s) the library's array containers use. The canonicalizer's table rules (C05) run inside this check; reviewed entries are keyed by the enclosing named function and the expression, with the dominating conditions they need. C19.Z (known-nil handed to a dereferencing callee), C19.N on (nil,nil)-helper results; the C05 scanner rules (including the position-loop rule, a necessary condition of termination) run here. The parser's validator fields are written by New and their own options only (never nil); reviewed entries follow call-and-wrap helpers. Copy / move destination index bounded before Apply (D14); nil-returning lookup functions are nullable sources. JSON-pointer tokens are un-escaped after the split; the capacity of make is judged like its length; X[:0] needs no guard; an index is also discharged by both bound tests among the conditions holding at the site."}
}

// reviewedPanicSites: function (short name) -> expression (canonical path / description) -> reason.
// One symbol + one expression + reason each; printed in evidence.
var reviewedPanicSites = map[string]map[string][]reviewedEntry{}

// reviewed registers a reviewed reason; needs are branch conditions ("<canonical condition>=true|false") the
// reason depends on: each must hold on a dominating branch edge at every site the entry is used for, otherwise
// the entry does not apply (the construct is then reported as undischarged: the review has to be redone).
// Entries are keyed by the enclosing named function: which of its function literals holds the site is not part of the
// key (their numbering shifts whenever one is added or removed); the entry's conditions tie it to the site.
var closureIdx = regexp.MustCompile(`\$\d+`)

func reviewedFnKey(fn string) string { return closureIdx.ReplaceAllString(fn, "$$") }

func reviewed(fn, expr, why string, needs ...string) {
	fn = reviewedFnKey(fn)
	if reviewedPanicSites[fn] == nil {
		reviewedPanicSites[fn] = map[string][]reviewedEntry{}
	}
	reviewedPanicSites[fn][expr] = append(reviewedPanicSites[fn][expr], reviewedEntry{why: why, needs: needs})
}

type reviewedEntry struct {
	why   string
	needs []string
}

func (c *Ctx) c19Entries() []*ssa.Function {
	var out []*ssa.Function
	add := func(f *ssa.Function) {
		if f != nil {
			out = append(out, f)
		}
	}
	for _, m := range []string{"Parse", "ParseOperation", "ParseDID", "GetRevealValue", "GetCommitment", "ParseCreateOperation", "ParseUpdateOperation", "ParseRecoverOperation", "ParseDeactivateOperation", "ParseSignedDataForUpdate", "ParseSignedDataForRecover", "ParseSignedDataForDeactivate", "ValidateDelta", "ValidateSuffixData"} {
		add(c.Method(pParser, "Parser", m))
	}
	add(c.Method("vdr/sidetreelongform/dochandler", "DocumentHandler", "ResolveDocument"))
	add(c.Method("vdr/sidetreelongform/dochandler", "DocumentHandler", "ProcessOperation"))
	add(c.Method("vdr/sidetreelongform", "VDR", "Read"))
	for _, fn := range []string{"ParseJWS", "VerifyJWS", "VerifySignature", "GetED25519PublicKey"} {
		add(c.Fn("jwsutil", fn))
	}
	add(c.Method("jwsutil", "JWK", "UnmarshalJSON"))
	add(c.Fn("canonicalizer", "MarshalCanonical"))
	add(c.Fn("internal/jsoncanonicalizer", "Transform"))
	for _, fn := range []string{"FromBytes", "PatchesFromDocument", "NewReplacePatch", "NewJSONPatch", "NewAddPublicKeysPatch", "NewRemovePublicKeysPatch", "NewAddServiceEndpointsPatch", "NewRemoveServiceEndpointsPatch", "NewAddAlsoKnownAs", "NewRemoveAlsoKnownAs"} {
		add(c.Fn("patch", fn))
	}
	add(c.Fn(pPV, "Validate"))
	add(c.Method(pComposer, "DocumentComposer", "ApplyPatches"))
	add(c.Method(pApplier, "Applier", "Apply"))
	add(c.Method("versions/1_0/doctransformer/didtransformer", "Transformer", "TransformDocument"))
	add(c.Method("versions/1_0/doctransformer/doctransformer", "Transformer", "TransformDocument"))
	for _, v := range []string{"versions/1_0/docvalidator/didvalidator", "versions/1_0/docvalidator/docvalidator"} {
		add(c.Method(v, "Validator", "IsValidOriginalDocument"))
		add(c.Method(v, "Validator", "IsValidPayload"))
	}
	for _, fn := range []string{"ComputeMultihash", "GetHashFromMultihash", "IsSupportedMultihash", "IsComputedUsingMultihashAlgorithms", "GetMultihashCode", "GetMultihash", "IsValidModelMultihash", "CalculateModelMultihash", "GetHash"} {
		add(c.Fn("hashing", fn))
	}
	for _, fn := range []string{"GetCommitment", "GetRevealValue", "GetCommitmentFromRevealValue"} {
		add(c.Fn("commitment", fn))
	}
	for _, fn := range []string{"FromBytes", "DidDocumentFromBytes", "ReplaceDocumentFromBytes"} {
		add(c.Fn("document", fn))
	}
	return out
}

// nullableFields: pointer-typed fields of module struct types that are targets of a JSON decoder
// (transitively through nested struct / pointer-to-struct fields), plus fields assigned from them.
func (c *Ctx) nullableFields() map[string]bool {
	out := map[string]bool{}
	seenT := map[string]bool{}
	var visitT func(t types.Type)
	visitT = func(t types.Type) {
		if p, ok := t.Underlying().(*types.Pointer); ok {
			t = p.Elem()
		}
		n, ok := t.(*types.Named)
		if !ok || n.Obj().Pkg() == nil || !strings.HasPrefix(n.Obj().Pkg().Path(), modPath) {
			return
		}
		st, ok := n.Underlying().(*types.Struct)
		if !ok {
			return
		}
		key := types.TypeString(n, nil)
		if seenT[key] {
			return
		}
		seenT[key] = true
		for i := 0; i < st.NumFields(); i++ {
			ft := st.Field(i).Type()
			if _, isP := ft.Underlying().(*types.Pointer); isP {
				out[key+"."+st.Field(i).Name()] = true
			}
			visitT(ft)
		}
	}
	for _, f := range c.Funcs {
		forEachInstr(f, func(in ssa.Instruction) {
			cl, ok := in.(*ssa.Call)
			if !ok || cl.Call.StaticCallee() == nil {
				return
			}
			n := cl.Call.StaticCallee().String()
			if n != "encoding/json.Unmarshal" && n != "github.com/go-jose/go-jose/v3/json.Unmarshal" {
				return
			}
			for _, t := range c.decodeTargetTypes(cl.Call.Args[1], 0) {
				visitT(t)
			}
		})
	}
	// fields assigned from nullable fields (model.Operation.{Delta,SuffixData} <- schema.*)
	for iter := 0; iter < 3; iter++ {
		for _, f := range c.Funcs {
			forEachInstr(f, func(in ssa.Instruction) {
				st, ok := in.(*ssa.Store)
				if !ok {
					return
				}
				fa, ok := st.Addr.(*ssa.FieldAddr)
				if !ok {
					return
				}
				if src := c.nullableSource(st.Val, out); src != "" {
					t := fa.X.Type().Underlying().(*types.Pointer).Elem()
					out[types.TypeString(t, nil)+"."+fieldName(t, fa.Field)] = true
				}
			})
		}
	}
	return out
}

// nullableSource: if v is (a load of) a nullable field or a lookup in a map[K]*V, returns a description.
func (c *Ctx) nullableSource(v ssa.Value, nf map[string]bool) string {
	switch x := v.(type) {
	case *ssa.UnOp:
		if x.Op == token.MUL {
			// a pointer VARIABLE handed to the JSON decoder by address (`var p *T; json.Unmarshal(b, &p)`): the input
			// `null` leaves it nil and the decoder reports no error
			if al, ok := x.X.(*ssa.Alloc); ok {
				if _, isPP := derefT(al.Type()).Underlying().(*types.Pointer); isPP && al.Referrers() != nil {
					for _, r := range *al.Referrers() {
						mi, isMI := r.(*ssa.MakeInterface)
						if !isMI || mi.Referrers() == nil {
							continue
						}
						for _, rr := range *mi.Referrers() {
							if cl, isC := rr.(*ssa.Call); isC {
								if g := cl.Call.StaticCallee(); g != nil && (g.String() == "encoding/json.Unmarshal" || g.String() == "github.com/go-jose/go-jose/v3/json.Unmarshal") {
									return "pointer variable decoded by " + g.String()
								}
							}
						}
					}
				}
			}
			if fa, ok := x.X.(*ssa.FieldAddr); ok {
				t := fa.X.Type().Underlying().(*types.Pointer).Elem()
				k := types.TypeString(t, nil) + "." + fieldName(t, fa.Field)
				if nf[k] {
					return short(k)
				}
			}
		}
	case *ssa.Field:
		k := types.TypeString(x.X.Type(), nil) + "." + fieldName(x.X.Type(), x.Field)
		if nf[k] {
			return short(k)
		}
	case *ssa.Extract:
		// the pointer result of a module function that has a "nothing there" exit — (nil, nil): no value and no error
		if cl, ok := x.Tuple.(*ssa.Call); ok && x.Index == 0 {
			if g := cl.Call.StaticCallee(); g != nil && inModule(g) && g.Blocks != nil {
				if _, isP := x.Type().Underlying().(*types.Pointer); isP {
					for _, r := range returnsOf(g) {
						if len(r.Results) >= 2 && isNilConst(r.Results[0]) && isNilConst(r.Results[len(r.Results)-1]) && isErrType(r.Results[len(r.Results)-1].Type()) {
							return "result of " + short(g.String()) + ", which may return (nil, nil)"
						}
					}
				}
			}
		}
		if lk, ok := x.Tuple.(*ssa.Lookup); ok && x.Index == 0 {
			if mt, isM := lk.X.Type().Underlying().(*types.Map); isM {
				if _, isP := mt.Elem().Underlying().(*types.Pointer); isP {
					return "lookup in " + typeShort(lk.X.Type())
				}
			}
		}
	case *ssa.Lookup:
		if mt, isM := x.X.Type().Underlying().(*types.Map); isM && !x.CommaOk {
			if _, isP := mt.Elem().Underlying().(*types.Pointer); isP {
				return "lookup in " + typeShort(x.X.Type())
			}
		}
	case *ssa.Call:
		// the single pointer result of a module function that answers "nothing there" with nil (a lookup by name written
		// as a switch: parseEllipticCurve)
		if g := x.Call.StaticCallee(); g != nil && inModule(g) && g.Blocks != nil && g.Signature.Results().Len() == 1 {
			if _, isP := x.Type().Underlying().(*types.Pointer); isP {
				for _, r := range returnsOf(g) {
					if len(r.Results) == 1 && isNilConst(r.Results[0]) {
						return "result of " + short(g.String()) + ", which may return nil"
					}
				}
			}
		}
	}
	return ""
}

type c19 struct {
	c        *Ctx
	nf       map[string]bool
	requires map[*ssa.Function]map[int]bool // callee dereferences parameter i without its own nil guard
	reach    []*ssa.Function
	counts   map[string]int
	wraps    map[*ssa.Function][][2]string
}

// derefUses: instructions that dereference pointer value v (panic if v is nil).
func derefUses(v ssa.Value) []ssa.Instruction {
	var out []ssa.Instruction
	if v.Referrers() == nil {
		return nil
	}
	for _, r := range *v.Referrers() {
		switch x := r.(type) {
		case *ssa.FieldAddr:
			if x.X == v {
				// &p.f itself does not fault in Go's semantics until used, but go/ssa models p.f as FieldAddr+load: count it
				out = append(out, x)
			}
		case *ssa.UnOp:
			if x.Op == token.MUL && x.X == v {
				out = append(out, x)
			}
		case *ssa.IndexAddr:
			if x.X == v {
				out = append(out, x)
			}
		}
	}
	return out
}

func (k *c19) computeRequires() {
	k.requires = map[*ssa.Function]map[int]bool{}
	for iter := 0; iter < 4; iter++ {
		changed := false
		for _, f := range k.c.Funcs {
			if f.Blocks == nil {
				continue
			}
			for i, p := range f.Params {
				if _, isP := p.Type().Underlying().(*types.Pointer); !isP {
					continue
				}
				if k.requires[f][i] {
					continue
				}
				var events []ssa.Instruction
				events = append(events, derefUses(p)...)
				// handed on to a callee that requires it
				for _, r := range *p.Referrers() {
					if cl, ok := r.(*ssa.Call); ok {
						if g := cl.Call.StaticCallee(); g != nil {
							for ai, a := range cl.Call.Args {
								if a == ssa.Value(p) && k.requires[g][ai] {
									events = append(events, cl)
								}
							}
						}
					}
				}
				if len(events) == 0 {
					continue
				}
				evset := map[ssa.Instruction]bool{}
				for _, e := range events {
					evset[e] = true
				}
				pp := k.c.Path(p, nil)
				k.c.nameHandedOn = true
				ok, _, _ := k.c.Guard(f, nil, cmpReject(pp+" == nil rejected", token.EQL, pathIs(pp), pathIs("nil")), func(in ssa.Instruction) bool { return evset[in] })
				k.c.nameHandedOn = false
				if !ok {
					if k.requires[f] == nil {
						k.requires[f] = map[int]bool{}
					}
					k.requires[f][i] = true
					changed = true
				}
			}
		}
		if !changed {
			break
		}
	}
}

func (k *c19) obl(rule, key string, ok bool, pos token.Pos, detail string, w ...string) {
	k.counts[rule]++
	k.c.Check(rule, key, ok, pos, detail, w...)
}

func exprKey(c *Ctx, in ssa.Instruction) string {
	switch x := in.(type) {
	case *ssa.TypeAssert:
		return c.Path(x.X, nil) + ".(" + typeShort(x.AssertedType) + ")"
	case *ssa.IndexAddr:
		return c.Path(x.X, nil) + "[" + c.Path(x.Index, nil) + "]"
	case *ssa.Index:
		return c.Path(x.X, nil) + "[" + c.Path(x.Index, nil) + "]"
	case *ssa.Slice:
		return c.Path(x, nil)
	case *ssa.Lookup:
		return c.Path(x, nil)
	case ssa.Value:
		return c.Path(x, nil)
	}
	return in.String()
}

// wrapRenames: calls in f of a call-and-wrap helper — an unexported function that calls the function it is handed and,
// only when that call reported no error, hands its first result on — read as the call the helper makes: (helper call
// path, inner call path in f's frame).
func (k *c19) wrapRenames(f *ssa.Function) [][2]string {
	if r, ok := k.wraps[f]; ok {
		return r
	}
	c := k.c
	var out [][2]string
	forEachInstr(f, func(in ssa.Instruction) {
		cl, ok := in.(*ssa.Call)
		if !ok {
			return
		}
		g := cl.Call.StaticCallee()
		if g == nil || !inModule(g) || g.Blocks == nil || g.Object() == nil || g.Object().Exported() || !returnsError(g) {
			return
		}
		srs := successReturns(g)
		if len(srs) != 1 || len(srs[0].Results) < 2 {
			return
		}
		ex, isEx := returnedValue(srs[0], 0).(*ssa.Extract)
		if !isEx || ex.Index != 0 {
			return
		}
		inner, isC := ex.Tuple.(*ssa.Call)
		if !isC || inner.Call.IsInvoke() {
			return
		}
		if _, isP := inner.Call.Value.(*ssa.Parameter); !isP {
			return
		}
		if okG, _, n := c.Guard(g, nil, &GCheck{Name: "the handed-in function reported no error", NoDescend: true, MatchCall: func(c *Ctx, call *ssa.Call, env Env) bool { return call == inner }}, nil); !okG || n == 0 {
			return
		}
		genv := c.calleeEnv(&cl.Call, g, nil)
		to := c.Path(inner, genv)
		if strings.HasPrefix(to, "dyn:") {
			return
		}
		out = append(out, [2]string{c.Path(cl, nil), to})
	})
	if k.wraps == nil {
		k.wraps = map[*ssa.Function][][2]string{}
	}
	k.wraps[f] = out
	return out
}

func (k *c19) isReviewed(f *ssa.Function, expr string, site ...ssa.Instruction) (string, bool) {
	rens := k.wrapRenames(f)
	for _, rn := range rens {
		expr = strings.ReplaceAll(expr, rn[0], rn[1])
	}
	m := reviewedPanicSites[reviewedFnKey(short(f.String()))]
	var es []reviewedEntry
	if m != nil {
		es = m[expr]
	}
	if len(es) == 0 {
		// the code may have moved into an unexported helper of the same package that is handed the magnitude of the
		// number (|x|, written phi($0|-$0) where the sign is stripped in place): entries of the package are tried with
		// that value renamed to the helper's parameter
		if f.Object() != nil && !f.Object().Exported() && f.Signature.Recv() == nil {
			pkgPrefix := strings.TrimSuffix(short(f.String()), f.Name())
			mag := func(s string) string { return strings.ReplaceAll(s, "phi($0|-$0)", "$0") }
			for fn, mm := range reviewedPanicSites {
				if !strings.HasPrefix(fn, pkgPrefix) || strings.Contains(fn[len(pkgPrefix):], ".") {
					continue
				}
				for e, ents := range mm {
					if !strings.Contains(e, "phi($0|-$0)") || mag(e) != expr {
						continue
					}
					for _, en := range ents {
						ne := reviewedEntry{why: en.why}
						for _, n := range en.needs {
							ne.needs = append(ne.needs, mag(n))
						}
						es = append(es, ne)
					}
				}
			}
		}
	}
	if len(es) == 0 && f.Object() != nil && !f.Object().Exported() && f.Signature.Recv() == nil && f.Parent() == nil {
		// a function literal that captures nothing written as a package-level function: the literal's entry applies where
		// neither the expression nor the conditions it needs name a parameter or a captured variable
		pkgPrefix := strings.TrimSuffix(short(f.String()), f.Name())
		for fn, mm := range reviewedPanicSites {
			if !strings.HasPrefix(fn, pkgPrefix) || !strings.HasSuffix(fn, "$") || strings.Contains(expr, "$") {
				continue
			}
			for _, en := range mm[expr] {
				if !strings.Contains(strings.Join(en.needs, " "), "$") {
					es = append(es, en)
				}
			}
		}
	}
	if len(es) == 0 {
		// the construct moved, with its function's tail, into an unexported helper that has exactly one call site: the
		// entry of the calling function applies, the helper's parameters read as the call's arguments and the
		// conditions asked for at the call
		if f.Object() != nil && !f.Object().Exported() && !k.addressTaken(f) {
			var calls []*ssa.Call
			for _, g := range k.c.Funcs {
				if pkgPathOf(g) != pkgPathOf(f) {
					continue
				}
				calls = append(calls, callsTo(g, f)...)
			}
			if len(calls) == 1 && calls[0].Parent() != f {
				cl := calls[0]
				e2 := expr
				args := cl.Call.Args
				for i := len(args) - 1; i >= 0; i-- {
					e2 = strings.ReplaceAll(e2, fmt.Sprintf("$%d", i), "\x00"+k.c.Path(args[i], nil)+"\x00")
				}
				e2 = strings.ReplaceAll(e2, "\x00", "")
				if why, ok := k.isReviewed(cl.Parent(), e2, cl); ok {
					return why + " (in " + short(cl.Parent().String()) + ", which hands the value to " + f.Name() + ")", true
				}
			}
		}
		return "", false
	}
	var conds []string
	haveSite := len(site) > 0 && site[0] != nil && site[0].Block() != nil
	if haveSite {
		conds = k.c.condsOf(site[0].Block())
		for i := range conds {
			for _, rn := range rens {
				conds[i] = strings.ReplaceAll(conds[i], rn[0], rn[1])
			}
		}
		if os.Getenv("STCHECK_CONDS") != "" {
			fmt.Printf("CONDS %s :: %s :: %v\n", short(f.String()), expr, conds)
		}
	}
	have := map[string]bool{}
	for _, cnd := range conds {
		have[cnd] = true
	}
	for _, e := range es {
		if len(e.needs) > 0 && !haveSite {
			continue
		}
		okE := true
		for _, n := range e.needs {
			if !have[n] && !impliedByAny(conds, n) {
				okE = false
			}
		}
		if okE {
			return e.why, true
		}
	}
	k.counts["C19-reviewed-entry-guard-missing"]++
	return "", false
}

func runC19(c *Ctx) {
	// reviewed reasons of the canonicalizer's table accesses rest on the escape tables being aligned (C05.T1) — and the
	// canonicalizer is the first thing untrusted bytes meet: its table rules are part of this check
	c.apart(runC05)
	c19Reviewed()
	k := &c19{c: c, nf: c.nullableFields(), counts: map[string]int{}}
	entries := c.c19Entries()
	c.Check("C19.E", "entry-points", len(entries) >= 55, 0, fmt.Sprintf("%d untrusted entry points resolved", len(entries)))
	k.reach = c.reachableModuleFuncs(entries)
	c.Check("C19.E", "reachable-functions", len(k.reach) > 150, 0, fmt.Sprintf("%d module functions reachable from the entry points", len(k.reach)))
	var nfs []string
	for f := range k.nf {
		nfs = append(nfs, short(f))
	}
	sort.Strings(nfs)
	c.extra["json_nullable_pointer_fields"] = nfs
	c.Check("C19.E", "nullable-field-inventory", len(nfs) >= 10, 0, fmt.Sprintf("%d JSON-nullable pointer fields: %v", len(nfs), nfs))
	k.computeRequires()

	for _, f := range k.reach {
		c.Analysed(f)
		k.assertions(f)
		k.nilDerefs(f)
		k.bounds(f)
		k.misc(f)
		k.hashing(f)
		k.definiteNil(f)
		k.preconditions(f)
		k.nilNil(f)
		k.boundedBeforeCanonicalizer(f)
	}
	c.Min("C19.R", 40)
	// positive examples for the rules whose expected count on a healthy tree is zero (the detector is alive)
	if w, err := buildWitness(c.Fset); err != nil {
		c.Check("C19.H", "positive-example:build", false, 0, "built-in positive examples could not be built: "+err.Error())
	} else {
		run := func(rule string, scan func(k *c19, f *ssa.Function), fns ...string) int {
			wc := c.witnessCtx()
			wk := &c19{c: wc, nf: map[string]bool{}, counts: map[string]int{}, requires: map[*ssa.Function]map[int]bool{}}
			for _, n := range fns {
				if f := w.fns[n]; f != nil {
					scan(wk, f)
				}
			}
			return failed(wc, rule)
		}
		c.alive("C19.H", "interface-keyed map / interface{} == interface{}", run("C19.H", (*c19).hashing, "hashWitness", "eqWitness") == 2, run("C19.H", (*c19).hashing, "hashOK") == 0)
		c.alive("C19.R", "a nil result returned with an error already found nil", run("C19.R", (*c19).nilNil, "nilNilWitness") == 1, run("C19.R", (*c19).nilNil, "nilNilOK") == 0)
		c.alive("C19.Z", "value tested nil, then dereferenced", run("C19.Z", (*c19).definiteNil, "nilUseWitness") == 1, run("C19.Z", (*c19).definiteNil, "hashOK") == 0)
	}
	// reviewed table: every entry must still bind to a construct (stale entries are reported, not fatal)
	var rv []string
	for fn, m := range reviewedPanicSites {
		for e, ws := range m {
			for _, w := range ws {
				x := fn + " :: " + e + " :: " + w.why
				if len(w.needs) > 0 {
					x += " :: requires on a dominating edge: " + strings.Join(w.needs, " ; ")
				}
				rv = append(rv, x)
			}
		}
	}
	sort.Strings(rv)
	c.extra["reviewed_sites"] = rv
	c.extra["site_counts"] = k.counts
	c.Min("C19.A", 3)
	// the parser invokes its two validator collaborators without a nil test: they are never nil because only New (a
	// default, on every path) and the field's own option (behind a nil test) write them
	c.validatorFieldsRule("C19.N", "anchorOriginValidator", "anchorTimeValidator")
	c.Min("C19.N", 21)
	c.Min("C19.B", 25)
	c.Min("C19.G", 2)
	c.Assume("termination, recursion depth and allocation size are not decided; third-party code is covered only through the precondition table (ed25519 key sizes, json-patch Apply under recover); encoding/json leaves pointer fields nil for absent or null members")
}

// ---- A: unchecked type assertions ---------------------------------------------------------------
func (k *c19) assertions(f *ssa.Function) {
	forEachInstr(f, func(in ssa.Instruction) {
		ta, ok := in.(*ssa.TypeAssert)
		if !ok || ta.CommaOk {
			return
		}
		// an assertion of an interface value to its own static type can only fail for the nil interface (go/ssa writes
		// one where a method value is taken from an interface): the call through it panics on nil all the same
		if types.Identical(ta.X.Type(), ta.AssertedType) {
			return
		}
		e := exprKey(k.c, ta)
		// type switch lowering: an unchecked assert in a block entered only on the ok-edge of the same comma-ok assert is fine
		if k.guardedByTypeTest(ta) {
			k.obl("C19.A", short(f.String())+": "+e, true, ta.Pos(), "assertion follows a successful comma-ok test of the same value and type (type switch)")
			return
		}
		if why := k.constructedOnly(f, ta); why != "" {
			k.obl("C19.A", short(f.String())+": "+e, true, ta.Pos(), "CONSTRUCTED — "+why)
			return
		}
		why, ok := k.isReviewed(f, e, ta)
		k.obl("C19.A", short(f.String())+": "+e, ok, ta.Pos(), "unchecked type assertion "+e+": "+orUndischarged(why, ok))
	})
}

func orUndischarged(why string, ok bool) string {
	if ok {
		return "REVIEWED — " + why
	}
	return "no dominating comma-ok test and no reviewed reason: a value of another dynamic type panics"
}

func (k *c19) guardedByTypeTest(ta *ssa.TypeAssert) bool {
	for _, r := range *ta.X.Referrers() {
		o, ok := r.(*ssa.TypeAssert)
		if !ok || !o.CommaOk || !types.Identical(o.AssertedType, ta.AssertedType) {
			continue
		}
		if okv := extractOf2(o, 1); okv != nil {
			for _, e := range boolEdges(okv, true) {
				if len(e.to.Preds) == 1 && e.to.Dominates(ta.Block()) {
					return true
				}
			}
		}
	}
	return false
}

// ---- N: dereferences of JSON-nullable pointers --------------------------------------------------
func (k *c19) nilDerefs(f *ssa.Function) {
	c := k.c
	seen := map[string]bool{}
	forEachInstr(f, func(in ssa.Instruction) {
		v, ok := in.(ssa.Value)
		if !ok {
			return
		}
		src := c.nullableSource(v, k.nf)
		if src == "" {
			return
		}
		var events []ssa.Instruction
		events = append(events, derefUses(v)...)
		if v.Referrers() != nil {
			for _, r := range *v.Referrers() {
				if cl, isC := r.(*ssa.Call); isC {
					for _, g := range c.Callees(&cl.Call) {
						args := cl.Call.Args
						if cl.Call.IsInvoke() {
							args = append([]ssa.Value{cl.Call.Value}, args...)
						}
						for ai, a := range args {
							if a == v && k.requires[g][ai] {
								events = append(events, cl)
							}
						}
					}
				}
			}
		}
		if len(events) == 0 {
			return
		}
		pp := c.Path(v, nil)
		key := short(f.String()) + ": deref " + pp
		if seen[key] {
			return
		}
		seen[key] = true
		evset := map[ssa.Instruction]bool{}
		for _, e := range events {
			evset[e] = true
		}
		c.nameHandedOn = true
		ok2, w, _ := c.Guard(f, nil, cmpReject(pp+" == nil rejected", token.EQL, pathIs(pp), pathIs("nil")), func(in ssa.Instruction) bool { return evset[in] })
		c.nameHandedOn = false
		if !ok2 {
			if why, rv := k.isReviewed(f, "deref "+pp, events[0]); rv {
				k.obl("C19.N", key, true, events[0].Pos(), "REVIEWED — "+why)
				return
			}
			// the value hangs off a parameter of an unexported helper: decide at every call site, in the caller's frame
			if why := k.dischargedByCallers(f, v); why != "" {
				k.obl("C19.N", key, true, events[0].Pos(), why)
				return
			}
		}
		k.obl("C19.N", key, ok2, instrPos(events[0]), fmt.Sprintf("%s (JSON-nullable: %s) is dereferenced / handed to a dereferencing callee at %d site(s); every such site lies behind a nil check of the same value", pp, src, len(events)), w...)
	})
}

// dischargedByCallers: v (rooted at a parameter of the unexported, never address-taken f) is non-nil at every static
// call site of f: the caller guards the corresponding value before the call, or holds a reviewed reason for it.
func (k *c19) dischargedByCallers(f *ssa.Function, v ssa.Value) string {
	c := k.c
	if f.Object() == nil || f.Object().Exported() || !strings.HasPrefix(c.Path(v, nil), "$") || k.addressTaken(f) {
		return ""
	}
	n := 0
	for _, g := range c.Funcs {
		bad := false
		forEachInstr(g, func(in ssa.Instruction) {
			cl, ok := in.(*ssa.Call)
			if !ok || cl.Call.StaticCallee() != f {
				return
			}
			env := c.calleeEnv(&cl.Call, f, nil)
			pp := c.Path(v, env)
			if ok2, _, _ := c.Guard(g, nil, cmpReject(pp+" == nil rejected", token.EQL, pathIs(pp), pathIs("nil")), func(i ssa.Instruction) bool { return i == ssa.Instruction(cl) }); ok2 {
				n++
				return
			}
			if _, rv := k.isReviewed(g, "deref "+pp, cl); rv {
				n++
				return
			}
			bad = true
		})
		if bad {
			return ""
		}
	}
	if n == 0 {
		return ""
	}
	return fmt.Sprintf("the value is a parameter member of the unexported %s; at each of its %d call site(s) the caller has checked it (nil test before the call, or a reviewed reason for the caller-side value)", short(f.String()), n)
}

// ---- B: index and slice bounds ------------------------------------------------------------------
func (k *c19) bounds(f *ssa.Function) {
	c := k.c
	forEachInstr(f, func(in ssa.Instruction) {
		var X, idx ssa.Value
		switch x := in.(type) {
		case *ssa.IndexAddr:
			X, idx = x.X, x.Index
		case *ssa.Index:
			X, idx = x.X, x.Index
		case *ssa.Slice:
			k.sliceBounds(f, x)
			return
		default:
			return
		}
		e := exprKey(c, in)
		key := short(f.String()) + ": " + e
		// arrays / pointers to arrays with constant in-range index: checked by the compiler
		xt := X.Type().Underlying()
		if p, ok := xt.(*types.Pointer); ok {
			xt = p.Elem().Underlying()
		}
		if arr, ok := xt.(*types.Array); ok {
			if kc, isK := idx.(*ssa.Const); isK {
				if v, ok2 := constant.Int64Val(kc.Value); ok2 && v >= 0 && v < arr.Len() {
					return // not an obligation
				}
			}
		}
		if k.indexDischarged(f, in, X, idx) {
			k.obl("C19.B", key, true, in.Pos(), "index is bounded by a dominating comparison with len of the same value (range / loop condition / length check)")
			return
		}
		why, ok := k.isReviewed(f, e, in)
		k.obl("C19.B", key, ok, instrPos(in), "index expression "+e+": "+orUndischargedB(why, ok))
	})
}

func orUndischargedB(why string, ok bool) string {
	if ok {
		return "REVIEWED — " + why
	}
	return "no dominating length guard found and no reviewed reason: an out-of-range index panics"
}

// indexDischarged: RANGE / LOOPLEN / LENCHECK.
func (k *c19) indexDischarged(f *ssa.Function, at ssa.Instruction, X, idx ssa.Value) bool {
	c := k.c
	xp := c.Path(X, nil)
	lenX := "len(" + xp + ")"
	// constant index: need a dominating edge implying len(X) > k
	if kc, ok := idx.(*ssa.Const); ok {
		kv, _ := constant.Int64Val(kc.Value)
		if k.lenAtLeast(f, at, lenX, kv+1) {
			return true
		}
	}
	// both bounds tested on the way here, in whatever spelling: the conditions that hold at this point include
	// 0 <= idx and idx < len(X) (canonical forms of the branch conditions)
	{
		ip := c.Path(idx, nil)
		lo, hi := false, false
		for _, cnd := range c.condsOf(at.Block()) {
			switch cnd {
			case "(0 <= " + ip + ")=true", "(" + ip + " >= 0)=true", "(" + ip + " < 0)=false", "(-1 < " + ip + ")=true":
				lo = true
			case "(" + ip + " < " + lenX + ")=true", "(" + lenX + " > " + ip + ")=true", "(" + ip + " >= " + lenX + ")=false", "(" + lenX + " <= " + ip + ")=false":
				hi = true
			}
		}
		if lo && hi && !strings.Contains(ip, "phi(") {
			return true
		}
	}
	// … the same two tests found on the values themselves (a loop-carried container has no stable spelling): branch
	// edges that dominate the site and compare this index value with 0 and with len of this very container value
	{
		lo, hi := false, false
		isLenX := func(v ssa.Value) bool {
			cl, ok := v.(*ssa.Call)
			if !ok {
				return false
			}
			bi, isB := cl.Call.Value.(*ssa.Builtin)
			return isB && bi.Name() == "len" && len(cl.Call.Args) == 1 && cl.Call.Args[0] == X
		}
		isZero := func(v ssa.Value) bool {
			kc, ok := v.(*ssa.Const)
			if !ok || kc.Value == nil {
				return false
			}
			kv, ok2 := constant.Int64Val(kc.Value)
			return ok2 && kv == 0
		}
		for _, b := range f.Blocks {
			iff, ok := b.Instrs[len(b.Instrs)-1].(*ssa.If)
			if !ok || len(b.Succs) != 2 || b.Succs[0] == b.Succs[1] {
				continue
			}
			bo, isBO := iff.Cond.(*ssa.BinOp)
			if !isBO || !isCmp(bo.Op) {
				continue
			}
			for si, succ := range b.Succs {
				if len(succ.Preds) != 1 || !succ.Dominates(at.Block()) {
					continue
				}
				truth := si == 0
				op := bo.Op
				l, r := bo.X, bo.Y
				// normalise to "idx OP other" holding on this edge
				if r == idx {
					l, r = r, l
					switch op {
					case token.LSS:
						op = token.GTR
					case token.GTR:
						op = token.LSS
					case token.LEQ:
						op = token.GEQ
					case token.GEQ:
						op = token.LEQ
					}
				}
				if l != idx {
					continue
				}
				if !truth {
					switch op {
					case token.LSS:
						op = token.GEQ
					case token.GEQ:
						op = token.LSS
					case token.GTR:
						op = token.LEQ
					case token.LEQ:
						op = token.GTR
					default:
						continue
					}
				}
				if op == token.GEQ && isZero(r) {
					lo = true
				}
				if op == token.LSS && isLenX(r) {
					hi = true
				}
			}
		}
		if _, isPhi := idx.(*ssa.Phi); lo && hi && !isPhi {
			return true
		}
	}
	// X freshly made with the length the index is compared against
	if ms, ok := X.(*ssa.MakeSlice); ok {
		lenX = c.Path(ms.Len, nil)
	}
	// last element: X[len(X)-1] with len(X) >= 1
	if c.Path(idx, nil) == "("+lenX+" - 1)" && k.lenAtLeast(f, at, lenX, 1) {
		return true
	}
	// position found by a search function: i := IndexByte(A, x) with i >= 0 (or != -1) on a dominating edge gives
	// 0 <= i < len(A); fine for X == A, or for two package-level slice literals with len(X) >= len(A)
	if cl, ok := idx.(*ssa.Call); ok && isIndexSearch(cl) && len(cl.Call.Args) >= 1 {
		ip := c.Path(idx, nil)
		found := anyOf("search result >= 0", cmpAccept("i >= 0", token.GEQ, pathIs(ip), pathIs("0")), cmpReject("i < 0 rejected", token.LSS, pathIs(ip), pathIs("0")), cmpReject("i == -1 rejected", token.EQL, pathIs(ip), pathIs("-1")), cmpAccept("i != -1", token.NEQ, pathIs(ip), pathIs("-1")))
		if ok2, _, n := c.Guard(f, nil, found, func(in ssa.Instruction) bool { return in == at }); ok2 && n > 0 {
			if c.Path(cl.Call.Args[0], nil) == xp {
				return true
			}
			if la, lx := k.globalLiteralLen(cl.Call.Args[0]), k.globalLiteralLen(X); la > 0 && lx >= la {
				return true
			}
		}
	}
	// comparator of sort.Slice(x, less): the library guarantees 0 <= i, j < len(x)
	if p, ok := idx.(*ssa.Parameter); ok && k.isSortLessOf(f, X) && paramIndex(p) < 2 {
		return true
	}
	// element of a parameter slice with constant index: every module caller guards the length
	if kc, ok := idx.(*ssa.Const); ok {
		if p, isP := X.(*ssa.Parameter); isP {
			kv, _ := constant.Int64Val(kc.Value)
			if k.callersGuardLen(f, paramIndex(p), kv+1) {
				return true
			}
		}
	}
	// a rotated loop (`for i := range n`): the index is a φ at the head of the body, and every way into the body is the
	// true edge of "incoming value < L" — the entry test 0 < L and the test at the foot of the body i+1 < L
	if phi, isPhi := idx.(*ssa.Phi); isPhi && phi.Block() == at.Block() || isPhi && phi.Block().Dominates(at.Block()) {
		var bound ssa.Value
		okAll := len(phi.Edges) > 0 && nonNegative(idx)
		for i, e := range phi.Edges {
			pred := phi.Block().Preds[i]
			iff, isIf := pred.Instrs[len(pred.Instrs)-1].(*ssa.If)
			if !isIf || len(pred.Succs) != 2 || pred.Succs[0] != phi.Block() || pred.Succs[1] == phi.Block() {
				okAll = false
				break
			}
			bo, isB := iff.Cond.(*ssa.BinOp)
			if !isB {
				okAll = false
				break
			}
			l, r, op := bo.X, bo.Y, bo.Op
			if r == e && l != e {
				l, r, op = r, l, flipOp(op)
			}
			same := l == e
			if !same {
				// (the constant 0 is a fresh value at each use)
				if k1, isK1 := l.(*ssa.Const); isK1 {
					if k2, isK2 := e.(*ssa.Const); isK2 && c.Path(k1, nil) == c.Path(k2, nil) {
						same = true
					}
				}
			}
			if op != token.LSS || !same {
				okAll = false
				break
			}
			if bound == nil {
				bound = r
			} else if bound != r && c.Path(bound, nil) != c.Path(r, nil) {
				okAll = false
				break
			}
		}
		if okAll && bound != nil && k.atMostLen(bound, lenX) {
			return true
		}
	}
	// induction index with dominating  idx < len(X)  true edge
	for _, b := range f.Blocks {
		iff, ok := b.Instrs[len(b.Instrs)-1].(*ssa.If)
		if !ok {
			continue
		}
		bo, ok := iff.Cond.(*ssa.BinOp)
		if !ok {
			continue
		}
		l, r := bo.X, bo.Y
		op := bo.Op
		if c.Path(l, nil) == lenX || (r == idx && l != idx) {
			l, r = r, l
			op = flipOp(op)
		}
		if op != token.LSS || l != idx {
			continue
		}
		if !(len(b.Succs[0].Preds) == 1 && b.Succs[0].Dominates(at.Block()) && nonNegative(idx)) {
			continue
		}
		rp := c.Path(r, nil)
		if rp == lenX {
			return true
		}
		// an array: its length is a constant of the type; idx < K with K <= that length
		{
			xt := X.Type().Underlying()
			if p, isP := xt.(*types.Pointer); isP {
				xt = p.Elem().Underlying()
			}
			if arr, isArr := xt.(*types.Array); isArr {
				if kc, isK := r.(*ssa.Const); isK && kc.Value != nil {
					if kv, exact := constant.Int64Val(kc.Value); exact && kv <= arr.Len() {
						return true
					}
				}
			}
		}
		// len of the very same SSA value (canonical paths of deeply nested φs are abbreviated and may differ)
		if lc, isC := r.(*ssa.Call); isC {
			if bi, isB := lc.Call.Value.(*ssa.Builtin); isB && bi.Name() == "len" && len(lc.Call.Args) == 1 && lc.Call.Args[0] == X {
				return true
			}
		}
		// idx < L where L is the smaller of two lengths, one of them len(X): L = φ(len(A), len(B)) chosen by a comparison
		if k.atMostLen(r, lenX) {
			return true
		}
		// idx < len(A) on a dominating edge and len(A) >= len(X) (or >) rejected before: idx < len(A) <= len(X)
		if strings.HasPrefix(rp, "len(") {
			for _, rej := range []token.Token{token.GEQ, token.GTR} {
				chk := cmpReject(rp+" >= "+lenX+" rejected", rej, pathIs(rp), pathIs(lenX))
				if ok, _, n := c.Guard(f, nil, chk, func(in ssa.Instruction) bool { return in == at }); ok && n > 0 {
					return true
				}
			}
		}
	}
	return false
}

// atMostLen: v <= len(X) on every path: v is len(X) itself, or a φ each of whose edges carries len(X) or a
// value e flowing in only along a branch edge on which  e < len(X)  or  e <= len(X)  holds.
func (k *c19) atMostLen(v ssa.Value, lenX string) bool {
	c := k.c
	if c.Path(v, nil) == lenX {
		return true
	}
	// the builtin min(…, len(X), …)
	if cl, isC := v.(*ssa.Call); isC {
		if b, isB := cl.Call.Value.(*ssa.Builtin); isB && b.Name() == "min" {
			for _, a := range cl.Call.Args {
				if k.atMostLen(a, lenX) {
					return true
				}
			}
		}
		return false
	}
	phi, ok := v.(*ssa.Phi)
	if !ok {
		return false
	}
	implies := func(iff *ssa.If, truth bool, e ssa.Value) bool {
		bo, isB := iff.Cond.(*ssa.BinOp)
		if !isB {
			return false
		}
		l, r, op := c.Path(bo.X, nil), c.Path(bo.Y, nil), bo.Op
		ep := c.Path(e, nil)
		if l == ep && r == lenX {
			l, r = r, l
			op = flipOp(op)
		}
		if l != lenX || r != ep {
			return false
		}
		switch op { // relation: len(X) op e is `truth`
		case token.GTR, token.GEQ:
			return truth
		case token.LSS, token.LEQ:
			return !truth
		}
		return false
	}
	for i, e := range phi.Edges {
		if c.Path(e, nil) == lenX {
			continue
		}
		p := phi.Block().Preds[i]
		okEdge := false
		// the branch is in the predecessor itself (edge p -> φ block) ...
		if iff, isIf := p.Instrs[len(p.Instrs)-1].(*ssa.If); isIf && p.Succs[0] != p.Succs[1] {
			okEdge = implies(iff, p.Succs[0] == phi.Block(), e)
		}
		// ... or above a chain of single-predecessor blocks ending in p
		for x := p; !okEdge && len(x.Preds) == 1; x = x.Preds[0] {
			d := x.Preds[0]
			if iff, isIf := d.Instrs[len(d.Instrs)-1].(*ssa.If); isIf && d.Succs[0] != d.Succs[1] {
				okEdge = implies(iff, d.Succs[0] == x, e)
			}
		}
		if !okEdge {
			return false
		}
	}
	return len(phi.Edges) > 0
}

// globalLiteralLen: v is a load of a package-level slice variable that is assigned exactly once, a literal, in the
// package initialiser (and whose address is taken nowhere else); returns the literal's length, 0 otherwise.
func (k *c19) globalLiteralLen(v ssa.Value) int {
	ld, ok := v.(*ssa.UnOp)
	if !ok || ld.Op != token.MUL {
		return 0
	}
	g, ok := ld.X.(*ssa.Global)
	if !ok || g.Pkg == nil {
		return 0
	}
	for _, f := range k.c.Funcs {
		bad := false
		if f.Synthetic != "" && f.Name() == "init" {
			continue // the package initialiser holds the one literal assignment
		}
		forEachInstr(f, func(in ssa.Instruction) {
			if st, isS := in.(*ssa.Store); isS && st.Addr == ssa.Value(g) {
				bad = true
			}
		})
		if bad {
			return 0
		}
	}
	return len(k.c.globalSliceLiteral(g))
}

func nonNegative(v ssa.Value) bool {
	switch x := v.(type) {
	case *ssa.Const:
		kv, ok := constant.Int64Val(x.Value)
		return ok && kv >= 0
	case *ssa.Phi:
		if !isInduction(x) {
			return false
		}
		for _, e := range x.Edges {
			if kc, ok := e.(*ssa.Const); ok {
				if kv, ok2 := constant.Int64Val(kc.Value); !ok2 || kv < 0 {
					return false
				}
			}
		}
		return true
	case *ssa.BinOp:
		if x.Op == token.ADD {
			if phi, ok := x.X.(*ssa.Phi); ok && isInduction(phi) {
				// rangeindex: phi starts at -1, index = phi+1
				if kc, isK := x.Y.(*ssa.Const); isK {
					if kv, _ := constant.Int64Val(kc.Value); kv == 1 {
						for _, e := range phi.Edges {
							if ec, isC := e.(*ssa.Const); isC {
								if ev, _ := constant.Int64Val(ec.Value); ev < -1 {
									return false
								}
							}
						}
						return true
					}
				}
			}
		}
	}
	return false
}

// lenAtLeast: some dominating branch edge implies lenExpr >= n.
func (k *c19) lenAtLeast(f *ssa.Function, at ssa.Instruction, lenExpr string, n int64) bool {
	c := k.c
	// strings.Split(s, sep) with a non-empty separator always yields at least one element
	if n <= 1 && strings.HasPrefix(lenExpr, "len(strings.Split(") && strings.HasSuffix(lenExpr, `"))`) && !strings.HasSuffix(lenExpr, `,""))`) {
		return true
	}
	// a string known to be non-empty (`s != ""` on a dominating edge) has at least one byte
	if n <= 1 && strings.HasPrefix(lenExpr, "len(") && strings.HasSuffix(lenExpr, ")") {
		sp := lenExpr[len("len(") : len(lenExpr)-1]
		for _, b := range f.Blocks {
			iff, ok := b.Instrs[len(b.Instrs)-1].(*ssa.If)
			if !ok {
				continue
			}
			bo, ok := iff.Cond.(*ssa.BinOp)
			if !ok || (bo.Op != token.EQL && bo.Op != token.NEQ) || !isStringType(bo.X.Type()) {
				continue
			}
			l, r := c.Path(bo.X, nil), c.Path(bo.Y, nil)
			if !((l == sp && r == `""`) || (r == sp && l == `""`)) {
				continue
			}
			for si, succ := range b.Succs {
				if len(succ.Preds) == 1 && succ.Dominates(at.Block()) && (si == 0) == (bo.Op == token.NEQ) {
					return true
				}
			}
		}
	}
	for _, b := range f.Blocks {
		iff, ok := b.Instrs[len(b.Instrs)-1].(*ssa.If)
		if !ok {
			continue
		}
		bo, ok := iff.Cond.(*ssa.BinOp)
		if !ok || !isCmp(bo.Op) {
			continue
		}
		l, r := bo.X, bo.Y
		op := bo.Op
		if c.Path(r, nil) == lenExpr {
			l, r = r, l
			op = flipOp(op)
		}
		if c.Path(l, nil) != lenExpr {
			continue
		}
		kc, ok := r.(*ssa.Const)
		if !ok {
			continue
		}
		cv, _ := constant.Int64Val(kc.Value)
		for si, succ := range b.Succs {
			if len(succ.Preds) != 1 || !succ.Dominates(at.Block()) {
				continue
			}
			truth := si == 0
			// relation known on this edge: len op cv is `truth`
			implies := false
			switch op {
			case token.EQL:
				implies = truth && cv >= n
			case token.NEQ:
				implies = !truth && cv >= n
			case token.LSS:
				implies = !truth && cv >= n // len >= cv
			case token.LEQ:
				implies = !truth && cv+1 >= n // len > cv
			case token.GTR:
				implies = truth && cv+1 >= n
			case token.GEQ:
				implies = truth && cv >= n
			}
			if op == token.EQL && !truth && cv == 0 && n == 1 {
				implies = true // len != 0
			}
			if op == token.NEQ && truth && cv == 0 && n == 1 {
				implies = true
			}
			if implies {
				return true
			}
		}
	}
	// the same fact established through a predicate helper (`if !isCompact(s) { return … }`) or in another spelling
	// (strings.Count(s, sep) == m-1): decided by the guard engine, which descends into boolean helpers
	implied := &GCheck{Name: lenExpr + " >= " + fmt.Sprint(n), MatchCmp: func(c *Ctx, bo *ssa.BinOp, env Env) (bool, bool) {
		if !isCmp(bo.Op) {
			return false, false
		}
		l, r := c.Path(bo.X, env), c.Path(bo.Y, env)
		if l2, r2, ok := countAsParts(l, r); ok {
			l, r = l2, r2
		}
		op := bo.Op
		if r == lenExpr {
			l, r = r, l
			op = flipOp(op)
		}
		if l != lenExpr {
			return false, false
		}
		cv, err := strconv.ParseInt(r, 10, 64)
		if err != nil {
			return false, false
		}
		for _, truth := range []bool{true, false} {
			imp := false
			switch op {
			case token.EQL:
				imp = truth && cv >= n
			case token.NEQ:
				imp = !truth && cv >= n
			case token.LSS:
				imp = !truth && cv >= n
			case token.LEQ:
				imp = !truth && cv+1 >= n
			case token.GTR:
				imp = truth && cv+1 >= n
			case token.GEQ:
				imp = truth && cv >= n
			}
			if imp {
				return true, truth
			}
		}
		return false, false
	}}
	if ok, _, nS := c.Guard(f, nil, implied, func(in ssa.Instruction) bool { return in == at }); ok && nS > 0 {
		return true
	}
	return false
}

func (k *c19) sliceBounds(f *ssa.Function, s *ssa.Slice) {
	c := k.c
	// s[:] / s[0:] / s[:len] of arrays: fine
	if s.Low == nil && s.High == nil {
		return
	}
	if s.High == nil {
		if kc, ok := s.Low.(*ssa.Const); ok {
			if kv, _ := constant.Int64Val(kc.Value); kv == 0 {
				return
			}
		}
	}
	// s[:0] (no lower bound): always within the capacity
	if s.Low == nil && s.Max == nil {
		if kc, ok := s.High.(*ssa.Const); ok && kc.Value != nil {
			if kv, _ := constant.Int64Val(kc.Value); kv == 0 {
				return
			}
		}
	}
	e := c.Path(s, nil)
	key := short(f.String()) + ": " + e
	// constant bounds within a fixed-size array
	xt := s.X.Type().Underlying()
	if p, ok := xt.(*types.Pointer); ok {
		if arr, isArr := p.Elem().Underlying().(*types.Array); isArr {
			okC := true
			for _, b := range []ssa.Value{s.Low, s.High} {
				if b == nil {
					continue
				}
				kc, isK := b.(*ssa.Const)
				if !isK {
					okC = false
					continue
				}
				if v, _ := constant.Int64Val(kc.Value); v < 0 || v > arr.Len() {
					okC = false
				}
			}
			if okC {
				return
			}
		}
	}
	xp := c.Path(s.X, nil)
	// X[k:] with len(X) >= k known
	if kc, ok := s.Low.(*ssa.Const); ok && s.High == nil {
		if kv, ok2 := constant.Int64Val(kc.Value); ok2 && kv >= 0 && k.lenAtLeast(f, s, "len("+xp+")", kv) {
			k.obl("C19.B", key, true, instrPos(s), "constant lower bound not above a length known on every path")
			return
		}
	}
	// X[k:len(X)-j] with len(X) >= k+j known
	if kc, ok := s.Low.(*ssa.Const); ok && s.High != nil && s.Max == nil {
		if bo, isB := s.High.(*ssa.BinOp); isB && bo.Op == token.SUB && c.Path(bo.X, nil) == "len("+xp+")" {
			if jc, isJ := bo.Y.(*ssa.Const); isJ && jc.Value != nil && kc.Value != nil {
				kv, ok1 := constant.Int64Val(kc.Value)
				jv, ok2 := constant.Int64Val(jc.Value)
				if ok1 && ok2 && kv >= 0 && jv >= 0 && k.lenAtLeast(f, s, "len("+xp+")", kv+jv) {
					k.obl("C19.B", key, true, instrPos(s), "constant bounds k and len-j with a length of at least k+j known on every path")
					return
				}
			}
		}
	}
	// X[:len(A)] (or X[len(A):]) behind the rejection of len(A) >= len(X) / len(A) > len(X): the bound is within len(X)
	for _, bnd := range []ssa.Value{s.Low, s.High} {
		if bnd == nil {
			continue
		}
		bp := c.Path(bnd, nil)
		if !strings.HasPrefix(bp, "len(") || (s.Low != nil && s.High != nil) {
			continue
		}
		for _, rej := range []token.Token{token.GEQ, token.GTR} {
			chk := cmpReject(bp+" >= len(X) rejected", rej, pathIs(bp), pathIs("len("+xp+")"))
			if ok, _, n := c.Guard(f, nil, chk, func(in ssa.Instruction) bool { return in == ssa.Instruction(s) }); ok && n > 0 {
				k.obl("C19.B", key, true, instrPos(s), "slice bound "+bp+" lies behind the rejection of "+bp+" >= len of the sliced value")
				return
			}
		}
	}
	// X[:len(Y)] where X is a list that only grows from Y: every value it may hold is Y itself or append(one of them, …)
	if s.Low == nil && s.High != nil && s.Max == nil {
		if ln, ok := s.High.(*ssa.Call); ok {
			if bi, isB := ln.Call.Value.(*ssa.Builtin); isB && bi.Name() == "len" && growsFrom(s.X, ln.Call.Args[0]) {
				k.obl("C19.B", key, true, instrPos(s), "the sliced list only grows (append) from the list whose length is the bound")
				return
			}
		}
	}
	// X[i:i+1] with 0 <= i < len(X)
	if s.Low != nil && s.High != nil && s.Max == nil {
		if bo, ok := s.High.(*ssa.BinOp); ok && bo.Op == token.ADD && bo.X == s.Low {
			if kc, isK := bo.Y.(*ssa.Const); isK && kc.Value != nil && kc.Value.ExactString() == "1" && k.indexDischarged(f, s, s.X, s.Low) {
				k.obl("C19.B", key, true, instrPos(s), "one-element window [i:i+1] with i bounded by a dominating comparison with len of the same value")
				return
			}
		}
	}
	// s[Index(s, sep)+1:] / s[LastIndex(s, sep)+1:] : the bound is in [0, len(s)] by construction
	if s.High == nil {
		lp := c.Path(s.Low, nil)
		if strings.HasPrefix(lp, "(strings.LastIndex("+xp+",") && strings.HasSuffix(lp, ") + 1)") || strings.HasPrefix(lp, "(strings.Index("+xp+",") && strings.HasSuffix(lp, ") + 1)") {
			k.obl("C19.B", key, true, instrPos(s), "lower bound is Index/LastIndex of the same string + 1, which lies in [0, len]")
			return
		}
	}
	// X[:K] / X[K:] behind a guard len(X) == 2*K
	for _, bnd := range []ssa.Value{s.Low, s.High} {
		if bnd == nil {
			continue
		}
		kp := c.Path(bnd, nil)
		chk := cmpReject("len(X) != 2*K rejected", token.NEQ, pathIs("len("+xp+")"), func(t string) bool { return t == "(2 * "+kp+")" || t == "("+kp+" * 2)" })
		if ok, _, n := c.Guard(f, nil, chk, func(in ssa.Instruction) bool { return in == ssa.Instruction(s) }); ok && n > 0 && (s.Low == nil || s.High == nil) {
			k.obl("C19.B", key, true, instrPos(s), "slice bound K lies behind the guard len(X) == 2*K")
			return
		}
	}
	why, ok := k.isReviewed(f, e, s)
	k.obl("C19.B", key, ok, instrPos(s), "slice expression "+e+": "+orUndischargedB(why, ok))
}

// ---- H: unhashable map keys and uncomparable interface comparisons ---------------------------------
// A map whose key type is (or contains) an interface panics at run time ("hash of unhashable type") when the
// dynamic type of a key is a map, slice or function — exactly what encoding/json produces for JSON objects
// and arrays decoded into interface{}. Comparing two interface values with == panics likewise when both hold
// the same uncomparable dynamic type.
func (k *c19) hashing(f *ssa.Function) {
	c := k.c
	k.counts["C19.H-functions-scanned"]++
	forEachInstr(f, func(in ssa.Instruction) {
		var m, key ssa.Value
		switch x := in.(type) {
		case *ssa.MapUpdate:
			m, key = x.Map, x.Key
		case *ssa.Lookup:
			if _, isMap := x.X.Type().Underlying().(*types.Map); isMap {
				m, key = x.X, x.Index
			}
		case *ssa.BinOp:
			if (x.Op == token.EQL || x.Op == token.NEQ) && types.IsInterface(x.X.Type()) && types.IsInterface(x.Y.Type()) {
				if staticallyHashable(x.X) || staticallyHashable(x.Y) {
					return
				}
				// non-empty interfaces (error, hash.Hash, ...) hold module / library implementations, not decoded JSON
				if !isEmptyInterface(x.X.Type()) && !isEmptyInterface(x.Y.Type()) {
					return
				}
				e := c.Path(x, nil)
				why, ok := k.isReviewed(f, e, x)
				k.obl("C19.H", short(f.String())+": "+e, ok, x.Pos(), "== on two interface{} values panics when both hold the same uncomparable dynamic type (map / slice, as decoded JSON objects and arrays are)"+reviewedNote(why, ok))
			}
			return
		default:
			return
		}
		if m == nil {
			return
		}
		mt := m.Type().Underlying().(*types.Map)
		if !containsInterface(mt.Key(), 0) {
			return
		}
		if staticallyHashable(key) {
			k.counts["C19.H-interface-keyed-map-accesses-with-hashable-key"]++
			return
		}
		e := c.Path(m, nil) + "[" + c.Path(key, nil) + "]"
		why, ok := k.isReviewed(f, e, in)
		k.obl("C19.H", short(f.String())+": "+e, ok, instrPos(in), "map with interface-typed key "+mt.Key().String()+" accessed with a key whose dynamic type is not fixed by the code: a JSON object or array as key panics (hash of unhashable type)"+reviewedNote(why, ok))
	})
}

func reviewedNote(why string, ok bool) string {
	if ok {
		return " — REVIEWED: " + why
	}
	return "; no reviewed reason is recorded for this site"
}

func isEmptyInterface(t types.Type) bool {
	it, ok := t.Underlying().(*types.Interface)
	return ok && it.NumMethods() == 0
}

func containsInterface(t types.Type, depth int) bool {
	if depth > 6 {
		return true
	}
	switch u := t.Underlying().(type) {
	case *types.Interface:
		return true
	case *types.Array:
		return containsInterface(u.Elem(), depth+1)
	case *types.Struct:
		for i := 0; i < u.NumFields(); i++ {
			if containsInterface(u.Field(i).Type(), depth+1) {
				return true
			}
		}
	}
	return false
}

// staticallyHashable: the value is nil, a constant, or an interface made from a value of a concrete comparable
// type without interface parts (its dynamic type is fixed by the code and hashable).
func staticallyHashable(v ssa.Value) bool { return staticallyHashableD(v, 0) }

func staticallyHashableD(v ssa.Value, depth int) bool {
	if depth > 8 {
		return false
	}
	switch x := v.(type) {
	case *ssa.Const:
		return true
	case *ssa.MakeInterface:
		t := x.X.Type()
		return types.Comparable(t) && !containsInterface(t, 0)
	case *ssa.ChangeInterface:
		return staticallyHashableD(x.X, depth+1)
	case *ssa.Phi:
		for _, e := range x.Edges {
			if !staticallyHashableD(e, depth+1) {
				return false
			}
		}
		return len(x.Edges) > 0
	}
	return !types.IsInterface(v.Type()) && types.Comparable(v.Type()) && !containsInterface(v.Type(), 0)
}

// ---- misc: explicit panic, division, make ---------------------------------------------------------
func (k *c19) misc(f *ssa.Function) {
	c := k.c
	forEachInstr(f, func(in ssa.Instruction) {
		switch x := in.(type) {
		case *ssa.Panic:
			why, ok := k.isReviewed(f, "panic", x)
			k.obl("C19.P", short(f.String())+": panic", ok, x.Pos(), "explicit panic reachable from an untrusted entry point: "+orUndischarged(why, ok))
		case *ssa.BinOp:
			if (x.Op == token.QUO || x.Op == token.REM) && isIntType(x.Type()) {
				if kc, ok := x.Y.(*ssa.Const); ok {
					if kv, _ := constant.Int64Val(kc.Value); kv != 0 {
						return
					}
				}
				why, ok := k.isReviewed(f, c.Path(x, nil), x)
				k.obl("C19.D", short(f.String())+": "+c.Path(x, nil), ok, x.Pos(), "integer division by a non-constant divisor: "+orUndischarged(why, ok))
			}
		case *ssa.MakeSlice:
			nonNeg := func(lp string) bool {
				// len(...) and sums of lengths are non-negative
				return (strings.HasPrefix(lp, "len(") && !strings.Contains(lp, " - ")) || (strings.HasPrefix(lp, "(len(") && strings.Contains(lp, " + len(") && !strings.Contains(lp, " - "))
			}
			// (the capacity, where given apart from the length, is held to the same: a negative one panics as well)
			if x.Cap != nil && x.Cap != x.Len {
				if _, isK := x.Cap.(*ssa.Const); !isK && !nonNegValue(x.Cap, 0) {
					if cp := c.Path(x.Cap, nil); !nonNeg(cp) {
						why, ok := k.isReviewed(f, "make:cap:"+cp, x)
						k.obl("C19.M", short(f.String())+": make(cap="+cp+")", ok, x.Pos(), "make with a computed capacity (negative panics): "+orUndischarged(why, ok))
					}
				}
			}
			if _, ok := x.Len.(*ssa.Const); ok {
				return
			}
			lp := c.Path(x.Len, nil)
			if nonNeg(lp) || nonNegValue(x.Len, 0) {
				return
			}
			why, ok := k.isReviewed(f, "make:"+lp, x)
			k.obl("C19.M", short(f.String())+": make(len="+lp+")", ok, x.Pos(), "make with a computed length (negative panics): "+orUndischarged(why, ok))
		}
	})
}

// ---- definite nil: a value tested nil on the path and then dereferenced / invoked -----------------
func (k *c19) definiteNil(f *ssa.Function) {
	c := k.c
	forEachInstr(f, func(in ssa.Instruction) {
		var v ssa.Value
		switch x := in.(type) {
		case *ssa.Call:
			if x.Call.IsInvoke() {
				v = x.Call.Value
			}
		case *ssa.UnOp:
			if x.Op == token.MUL {
				v = x.X
			}
		case *ssa.FieldAddr:
			v = x.X
		}
		if v == nil {
			return
		}
		if _, isK := v.(*ssa.Const); isK {
			return
		}
		for _, e := range nilTestEdges(v, true) {
			if len(e.to.Preds) == 1 && e.to.Dominates(in.Block()) {
				k.obl("C19.Z", short(f.String())+": use of nil "+c.Path(v, nil), false, instrPos(in), fmt.Sprintf("%s is nil on every path reaching %s (it was tested and found nil at %s) and is then dereferenced / invoked: certain panic", c.Path(v, nil), c.pos(instrPos(in)), c.pos(firstPos(e.from))))
				return
			}
		}
	})
	// … or handed to a module function that invokes a method on it / dereferences it without a test of its own
	// (`logfields.WithError(err)` with the err of an earlier, successful step: WithError calls err.Error())
	forEachInstr(f, func(in ssa.Instruction) {
		cl, ok := in.(*ssa.Call)
		if !ok {
			return
		}
		g := cl.Call.StaticCallee()
		if g == nil || !inModule(g) || g.Blocks == nil {
			return
		}
		for i, a := range cl.Call.Args {
			if i >= len(g.Params) {
				continue
			}
			if _, isK := a.(*ssa.Const); isK {
				continue
			}
			where := knownNilAt(a, cl.Block(), 0)
			if where == nil {
				continue
			}
			uses := false
			if types.IsInterface(g.Params[i].Type()) {
				uses = invokesUnchecked(g, i)
			} else if k.requires[g][i] {
				uses = true
			}
			if uses {
				k.obl("C19.Z", short(f.String())+": nil handed to "+short(g.String()), false, cl.Pos(), fmt.Sprintf("%s is nil on every path reaching %s (found nil at %s) and is handed to %s, which uses it without a nil test: certain panic", c.Path(a, nil), c.pos(cl.Pos()), c.pos(where.Pos()), short(g.String())))
			}
		}
	})
	k.counts["C19.Z-functions-scanned"]++
}

// invokesUnchecked: g invokes a method on its interface-typed parameter i somewhere that is not behind a nil test of
// that parameter.
func invokesUnchecked(g *ssa.Function, i int) bool {
	p := g.Params[i]
	if p.Referrers() == nil {
		return false
	}
	for _, r := range *p.Referrers() {
		cl, ok := r.(*ssa.Call)
		if !ok || !cl.Call.IsInvoke() || cl.Call.Value != ssa.Value(p) {
			continue
		}
		guarded := false
		for _, e := range nilTestEdges(p, false) {
			if len(e.to.Preds) == 1 && e.to.Dominates(cl.Block()) {
				guarded = true
			}
		}
		if !guarded {
			return true
		}
	}
	return false
}

// ---- G: preconditions of panicking callees -------------------------------------------------------
func (k *c19) preconditions(f *ssa.Function) {
	c := k.c
	forEachInstr(f, func(in ssa.Instruction) {
		cl, ok := in.(*ssa.Call)
		if !ok || cl.Call.StaticCallee() == nil {
			return
		}
		n := cl.Call.StaticCallee().String()
		switch n {
		case "crypto/ed25519.Verify":
			kp := c.Path(cl.Call.Args[0], nil)
			ok2, w, _ := c.Guard(f, nil, cmpReject("len(publicKey) != ed25519.PublicKeySize rejected", token.NEQ, pathIs("len("+kp+")"), pathIs("32")), func(i ssa.Instruction) bool { return i == in })
			k.obl("C19.G", short(f.String())+": ed25519.Verify key size", ok2, cl.Pos(), "ed25519.Verify panics on a public key of the wrong length; the call lies behind a length guard on "+kp, w...)
		case "crypto/ed25519.Sign":
			kp := c.Path(cl.Call.Args[0], nil)
			ok2, w, _ := c.Guard(f, nil, cmpReject("len(privateKey) != ed25519.PrivateKeySize rejected", token.NEQ, pathIs("len("+kp+")"), pathIs("64")), func(i ssa.Instruction) bool { return i == in })
			k.obl("C19.G", short(f.String())+": ed25519.Sign key size", ok2, cl.Pos(), "ed25519.Sign panics on a private key of the wrong length", w...)
		case "(github.com/evanphx/json-patch.Patch).Apply", "(github.com/evanphx/json-patch.Patch).ApplyIndent":
			ver := ""
			if p := c.TPkg[jsonPatchPkg]; p != nil && p.Module != nil {
				ver = p.Module.Version
			}
			if ver != "v4.1.0+incompatible" {
				k.obl("C19.G", short(f.String())+": json-patch Apply", false, cl.Pos(), "json-patch module version is "+ver+", the precondition entry was written for v4.1.0 — undecided (counts as failure)")
				return
			}
			okRec := k.underRecover(f)
			k.obl("C19.G", short(f.String())+": json-patch Apply under recover", okRec, cl.Pos(), "json-patch v4.1.0 Apply panics on validated patches (negative array index in get; test on a missing value; nil lazyNode in equal): the call must run in a function with a deferred recover whose value becomes the error result")
			k.aliasingCopy(f, cl)
		}
	})
}

// libCopyAliases derives from the library's own source whether its "copy" operation stores the node it read
// from the source location into the destination without copying it (the value handed to set is the very
// value returned by get). With such a library a node can be made a descendant of itself — by one copy whose
// "from" is a proper prefix of its "path", or by a later operation through a node shared by an earlier copy —
// and marshalling the result recurses until the stack is exhausted, which no recover can intercept.
func (k *c19) libCopyAliases() (aliases, resolved bool) {
	c := k.c
	cp := c.MethodIn(jsonPatchPkg, "Patch", "copy")
	if cp == nil {
		return false, false
	}
	var gets = map[ssa.Value]bool{}
	var setArg ssa.Value
	nset := 0
	forEachInstr(cp, func(in ssa.Instruction) {
		cl, ok := in.(*ssa.Call)
		if !ok || !cl.Call.IsInvoke() {
			return
		}
		switch cl.Call.Method.Name() {
		case "get":
			gets[cl] = true
		case "set", "add":
			nset++
			if len(cl.Call.Args) == 2 {
				setArg = cl.Call.Args[1]
			}
		}
	})
	if len(gets) == 0 || nset != 1 || setArg == nil {
		return false, false
	}
	if ex, ok := setArg.(*ssa.Extract); ok && gets[ex.Tuple] && ex.Index == 0 {
		return true, true
	}
	return false, true
}

// aliasingCopy: obligations on a json-patch Apply call when the library's copy shares nodes.
func (k *c19) aliasingCopy(f *ssa.Function, cl *ssa.Call) {
	c := k.c
	aliases, resolved := k.libCopyAliases()
	if !resolved {
		k.obl("C19.G", short(f.String())+": json-patch copy semantics", false, cl.Pos(), "the library's (Patch).copy could not be analysed (expected one get and one set on containers) — undecided (counts as failure)")
		return
	}
	if !aliases {
		k.counts["C19.G-json-patch-copy-does-not-alias"]++
		return
	}
	const why = "json-patch v4.1.0 copy stores the source node itself at the destination (patch.go: val from con.get is handed to con.set); a node that becomes its own descendant makes json.Marshal of the result recurse until the stack is exhausted (fatal, not recoverable)"
	// (a) one operation per Apply call: nodes shared by a copy do not survive into a later operation
	var base ssa.Value
	one := false
	if sl, ok := cl.Call.Args[0].(*ssa.Slice); ok && sl.Low != nil && sl.High != nil {
		if bo, isB := sl.High.(*ssa.BinOp); isB && bo.Op == token.ADD {
			isOne := func(v ssa.Value) bool {
				k, isK := v.(*ssa.Const)
				return isK && k.Value != nil && k.Value.ExactString() == "1"
			}
			if (bo.X == sl.Low && isOne(bo.Y)) || (bo.Y == sl.Low && isOne(bo.X)) {
				one, base = true, sl.X
			}
		}
	}
	k.obl("C19.G", short(f.String())+": json-patch Apply one operation per call", one, cl.Pos(), why+"; every Apply call must receive a one-operation patch p[i:i+1] so that each operation starts from freshly decoded bytes and no node is shared between operations")
	if !one {
		return
	}
	// (b) within one operation only a copy whose source contains its destination can close a cycle: a module
	// function that looks at "op" == "copy", "from" and "path" of this operation must have accepted it
	chk := &GCheck{Name: "copy-into-itself refused", NoDescend: true, MatchCall: func(c *Ctx, call *ssa.Call, env Env) bool {
		g := call.Call.StaticCallee()
		if !inModule(g) || !returnsError(g) {
			return false
		}
		fromPatch := false
		for _, a := range call.Call.Args {
			if backSlice(a)[base] {
				fromPatch = true
			}
		}
		if !fromPatch {
			return false
		}
		cs := c.stringConstsDeep(g, 3)
		return (cs["copy"] && cs["from"] && cs["path"]) || c.copyGuardOnMembers(call, env)
	}}
	// (the check handed the two pointers themselves runs for copies only: an operation whose "op" is not "copy" needs none)
	notCopy := cmpAccept("the operation is not a copy", token.NEQ, func(p string) bool { return strings.Contains(p, `"op"`) }, pathIs(`"copy"`))
	// "the same element" must mean what it means to the library: its array containers turn a reference token into an
	// index with the strconv function(s) below; the module's check has to read numeric tokens with the same function,
	// or two spellings the library treats as one element ("+0", "-0", "00") slip through
	libParse := map[string]bool{}
	if sp := c.SPkg[jsonPatchPkg]; sp != nil {
		for _, lf := range allFuncs(sp) {
			if lf.Signature.Recv() == nil || !strings.Contains(lf.Signature.Recv().Type().String(), "partialArray") {
				continue
			}
			forEachInstr(lf, func(in ssa.Instruction) {
				if lc, isC := in.(*ssa.Call); isC && lc.Call.StaticCallee() != nil && lc.Call.StaticCallee().Pkg != nil && lc.Call.StaticCallee().Pkg.Pkg.Path() == "strconv" {
					libParse[lc.Call.StaticCallee().String()] = true
				}
			})
		}
	}
	modParse := map[string]bool{}
	forEachInstr(f, func(in ssa.Instruction) {
		call, isC := in.(*ssa.Call)
		if !isC || !chk.MatchCall(c, call, nil) {
			return
		}
		for _, g := range c.reachableModuleFuncs([]*ssa.Function{call.Call.StaticCallee()}) {
			forEachInstr(g, func(i2 ssa.Instruction) {
				if mc, isMC := i2.(*ssa.Call); isMC && mc.Call.StaticCallee() != nil && mc.Call.StaticCallee().Pkg != nil && mc.Call.StaticCallee().Pkg.Pkg.Path() == "strconv" {
					n := mc.Call.StaticCallee().String()
					if strings.HasPrefix(n, "strconv.Atoi") || strings.HasPrefix(n, "strconv.Parse") {
						modParse[n] = true
					}
				}
			})
		}
	})
	same := len(libParse) > 0 && len(modParse) == len(libParse)
	for n := range modParse {
		if !libParse[n] {
			same = false
		}
	}
	k.obl("C19.G", short(f.String())+": copy check reads array indices like the library", same, cl.Pos(), fmt.Sprintf("the library's array containers parse index tokens with %v; the module's copy-into-itself check parses them with %v", keysOfBool(libParse), keysOfBool(modParse)))
	// (c) the library's array container grows to whatever index "copy" and "move" tell it to set (patch.go:
	// partialArray.set makes idx+1 slots; RFC 6902 4.1 calls an index beyond the end an error): before Apply the operation
	// must have passed a module check that looks at "op" ("copy", "move") and "path" and compares the parsed index with
	// the length of an array — or a patch of fifty bytes allocates gigabytes and the process is killed
	idxChk := &GCheck{Name: "copy / move destination index within the array", NoDescend: true, MatchCall: func(c *Ctx, call *ssa.Call, env Env) bool {
		g := call.Call.StaticCallee()
		if !inModule(g) || !returnsError(g) {
			return false
		}
		fromPatch := false
		for _, a := range call.Call.Args {
			if backSlice(a)[base] {
				fromPatch = true
			}
		}
		cs := c.stringConstsDeep(g, 3)
		if !fromPatch || !cs["copy"] || !cs["move"] || !cs["path"] {
			return false
		}
		bounded := false
		for _, h := range c.reachableModuleFuncs([]*ssa.Function{g}) {
			forEachInstr(h, func(in ssa.Instruction) {
				bo, isB := in.(*ssa.BinOp)
				if !isB || !isCmp(bo.Op) {
					return
				}
				l, r := c.Path(bo.X, nil), c.Path(bo.Y, nil)
				// (the index compared is the destination's own: the number parsed from the last reference token — not a
				// value that a walk over the tokens before it may have overwritten)
				isDest := func(p string) bool {
					if strings.Contains(p, "phi(") || strings.Contains(p, "[ι]") {
						return false
					}
					// the number parsed from the last token, read where it was parsed or out of what a parsing helper hands back
					return (strings.HasPrefix(p, "strconv.Atoi(") && strings.HasSuffix(p, " - 1)])#0")) || (strings.Contains(p, "doccomposer.") && strings.Contains(p, ")#0"))
				}
				if (isDest(l) && strings.Contains(r, "len(")) || (isDest(r) && strings.Contains(l, "len(")) {
					bounded = true
				}
			})
		}
		return bounded
	}}
	okI, wI, _ := c.Guard(f, nil, idxChk, func(i ssa.Instruction) bool { return i == ssa.Instruction(cl) })
	k.obl("C19.G", short(f.String())+": json-patch copy / move destination index bounded", okI, cl.Pos(), "json-patch v4.1.0 partialArray.set allocates index+1 slots for the destination of copy and move; before Apply the operation must have passed a module check that refuses a destination index beyond the end of the array it addresses", wI...)
	// (d) the guards read a JSON pointer the way RFC 6901 says: split on "/" first, then un-escape each reference
	// token — un-escaping the whole pointer first turns "~1" into a separator, the walk goes astray and the guard lets
	// through what it was written to refuse
	{
		var early []string
		n := 0
		for _, g := range c.Funcs {
			if pkgPathOf(g) != pkgPathOf(f) {
				continue
			}
			forEachInstr(g, func(in ssa.Instruction) {
				sc, isC := in.(*ssa.Call)
				if !isC || sc.Call.StaticCallee() == nil || len(sc.Call.Args) < 2 {
					return
				}
				switch sc.Call.StaticCallee().String() {
				case "strings.Split", "strings.SplitN", "strings.SplitAfter", "strings.SplitAfterN":
				default:
					return
				}
				if c.Path(sc.Call.Args[1], nil) != `"/"` {
					return
				}
				n++
				for v := range backSlice(sc.Call.Args[0]) {
					if rc, isR := v.(*ssa.Call); isR && rc.Call.StaticCallee() != nil {
						switch rc.Call.StaticCallee().String() {
						case "(*strings.Replacer).Replace", "strings.ReplaceAll", "strings.Replace":
							early = append(early, c.pos(sc.Pos())+": "+short(g.String())+" splits "+c.Path(sc.Call.Args[0], nil))
						}
					}
				}
			})
		}
		sort.Strings(early)
		k.obl("C19.G", short(f.String())+": json-pointer tokens un-escaped after the split", n > 0 && len(early) == 0, cl.Pos(), fmt.Sprintf("%d split(s) of a pointer on \"/\" in the package; each splits the pointer as written — reference tokens are un-escaped one by one afterwards (RFC 6901 section 4)", n), early...)
	}
	ok, w, _ := c.Guard(f, nil, anyOf("copy-into-itself refused, or not a copy", chk, notCopy), func(i ssa.Instruction) bool { return i == ssa.Instruction(cl) })
	k.obl("C19.G", short(f.String())+": json-patch copy into itself refused", ok, cl.Pos(), why+"; before Apply the operation must have passed a check (a module function returning an error that inspects \"op\" == \"copy\", \"from\" and \"path\" of this operation) refusing a copy whose from is a proper prefix of its path", w...)
}

func returnsError(g *ssa.Function) bool {
	res := g.Signature.Results()
	return res.Len() > 0 && isErrType(res.At(res.Len()-1).Type())
}

// stringConstsDeep: the string constants used by g and by the module functions it calls statically (bounded depth).
func (c *Ctx) stringConstsDeep(g *ssa.Function, depth int) map[string]bool {
	out := map[string]bool{}
	seen := map[*ssa.Function]bool{}
	var walk func(h *ssa.Function, d int)
	walk = func(h *ssa.Function, d int) {
		if h == nil || seen[h] || len(h.Blocks) == 0 {
			return
		}
		seen[h] = true
		forEachInstr(h, func(in ssa.Instruction) {
			var ops []*ssa.Value
			for _, op := range in.Operands(ops) {
				if k, ok := (*op).(*ssa.Const); ok && k.Value != nil && k.Value.Kind() == constant.String {
					out[constant.StringVal(k.Value)] = true
				}
			}
			if cl, ok := in.(*ssa.Call); ok && d > 0 {
				if cal := cl.Call.StaticCallee(); inModule(cal) {
					walk(cal, d-1)
				}
			}
		})
	}
	walk(g, depth)
	return out
}

// underRecover: f defers a closure that calls recover() and stores an error into a named result of f.
func (k *c19) underRecover(f *ssa.Function) bool { return recoverSetsError(f) }

// recoverSetsError: f defers a function that calls recover() itself and, when it recovered something, stores a non-nil
// error into an error result of f: a closure writing the captured result, or a named function handed the result's
// address (defer handle(&err)).
func recoverSetsError(f *ssa.Function) bool {
	ok := false
	forEachInstr(f, func(in ssa.Instruction) {
		d, isD := in.(*ssa.Defer)
		if !isD {
			return
		}
		var fn *ssa.Function
		errCell := func(addr ssa.Value) bool { return false }
		if mc, isMC := d.Call.Value.(*ssa.MakeClosure); isMC {
			fn, _ = mc.Fn.(*ssa.Function)
			errCell = func(addr ssa.Value) bool {
				fv, isFV := addr.(*ssa.FreeVar)
				return isFV && isErrType(fv.Type().(*types.Pointer).Elem())
			}
		} else if g := d.Call.StaticCallee(); g != nil && g.Blocks != nil {
			fn = g
			errCell = func(addr ssa.Value) bool {
				p, isP := addr.(*ssa.Parameter)
				if !isP {
					return false
				}
				pt, isPtr := p.Type().Underlying().(*types.Pointer)
				if !isPtr || !isErrType(pt.Elem()) {
					return false
				}
				i := paramIndex(p)
				if i < 0 || i >= len(d.Call.Args) {
					return false
				}
				al, isAl := d.Call.Args[i].(*ssa.Alloc)
				return isAl && al.Parent() == f
			}
		}
		if fn == nil {
			return
		}
		hasRecover, storesErr := false, false
		forEachInstr(fn, func(i2 ssa.Instruction) {
			if cl, isC := i2.(*ssa.Call); isC {
				if b, isB := cl.Call.Value.(*ssa.Builtin); isB && b.Name() == "recover" {
					hasRecover = true
				}
			}
			if st, isS := i2.(*ssa.Store); isS && errCell(st.Addr) && nonNilErr(st.Val, st) {
				storesErr = true
			}
		})
		if hasRecover && storesErr {
			ok = true
		}
	})
	return ok
}

// constructedOnly: the asserted type is the only type ever stored into the container the value comes from.
func (k *c19) constructedOnly(f *ssa.Function, ta *ssa.TypeAssert) string {
	c := k.c
	xp := c.Path(ta.X, nil)
	// (a) container/list element values inside one top-level function family
	if strings.HasSuffix(xp, ".Value") {
		root := f
		for root.Parent() != nil {
			root = root.Parent()
		}
		n, bad := 0, 0
		var walk func(g *ssa.Function)
		walk = func(g *ssa.Function) {
			forEachInstr(g, func(in ssa.Instruction) {
				cl, ok := in.(*ssa.Call)
				if !ok || cl.Call.StaticCallee() == nil {
					return
				}
				switch cl.Call.StaticCallee().String() {
				case "(*container/list.List).PushBack", "(*container/list.List).PushFront":
					n++
					if mi, isMI := cl.Call.Args[1].(*ssa.MakeInterface); !isMI || !types.Identical(mi.X.Type(), ta.AssertedType) {
						bad++
					}
				case "(*container/list.List).InsertBefore", "(*container/list.List).InsertAfter":
					n++
					if mi, isMI := cl.Call.Args[1].(*ssa.MakeInterface); !isMI || !types.Identical(mi.X.Type(), ta.AssertedType) {
						bad++
					}
				}
			})
			for _, an := range g.AnonFuncs {
				walk(an)
			}
		}
		walk(root)
		if n > 0 && bad == 0 {
			return fmt.Sprintf("all %d insertions into the list in %s store a %s", n, short(root.String()), typeShort(ta.AssertedType))
		}
		return ""
	}
	return k.mapValueProvenance(f, ta.X, ta.AssertedType, 2)
}

// mapValueProvenance: v is m[K] where m has a module-named map type and every MapUpdate with that constant key in
// the module stores a value of type T; or v is a parameter of an unexported module function each of whose static
// call sites passes such a value (the assertion was moved into a helper).
func (k *c19) mapValueProvenance(f *ssa.Function, v ssa.Value, T types.Type, depth int) string {
	c := k.c
	if p, isP := v.(*ssa.Parameter); isP && depth > 0 && f != nil && f.Object() != nil && !f.Object().Exported() {
		pi := -1
		for i, q := range f.Params {
			if q == p {
				pi = i
			}
		}
		n := 0
		why := ""
		for _, g := range c.Funcs {
			bad := false
			forEachInstr(g, func(in ssa.Instruction) {
				ci, ok := in.(ssa.CallInstruction)
				if !ok || ci.Common().StaticCallee() != f || ci.Common().IsInvoke() {
					return
				}
				args := ci.Common().Args
				if pi < 0 || pi >= len(args) {
					bad = true
					return
				}
				w := k.mapValueProvenance(g, args[pi], T, depth-1)
				if w == "" {
					bad = true
					return
				}
				n++
				why = w
			})
			if bad {
				return ""
			}
		}
		if n > 0 && !k.addressTaken(f) {
			return fmt.Sprintf("parameter of the unexported %s; at each of its %d call sites: %s", short(f.String()), n, why)
		}
		return ""
	}
	// what an unexported helper hands back on its success exits
	{
		var cl *ssa.Call
		idx := 0
		switch x := v.(type) {
		case *ssa.Call:
			cl = x
		case *ssa.Extract:
			cl, _ = x.Tuple.(*ssa.Call)
			idx = x.Index
		}
		if cl != nil && depth > 0 {
			if g := cl.Call.StaticCallee(); g != nil && inModule(g) && g.Blocks != nil && g.Object() != nil && !g.Object().Exported() {
				why, n := "", 0
				for _, r := range successReturns(g) {
					if idx >= len(r.Results) {
						return ""
					}
					w := k.mapValueProvenance(g, returnedValue(r, idx), T, depth-1)
					if w == "" {
						return ""
					}
					why = w
					n++
				}
				if n > 0 {
					return fmt.Sprintf("result of the unexported %s, on each of its %d success exit(s): %s", short(g.String()), n, why)
				}
				return ""
			}
		}
	}
	var lk *ssa.Lookup
	switch x := v.(type) {
	case *ssa.Lookup:
		lk = x
	case *ssa.Extract:
		lk, _ = x.Tuple.(*ssa.Lookup)
	}
	if lk == nil {
		return ""
	}
	nt, ok := lk.X.Type().(*types.Named)
	if !ok || nt.Obj().Pkg() == nil || !strings.HasPrefix(nt.Obj().Pkg().Path(), modPath) {
		return ""
	}
	kc, ok := lk.Index.(*ssa.Const)
	if !ok {
		return ""
	}
	n, bad := 0, 0
	for _, g := range c.Funcs {
		forEachInstr(g, func(in ssa.Instruction) {
			mu, isMU := in.(*ssa.MapUpdate)
			if !isMU || !types.Identical(mu.Map.Type(), nt) {
				return
			}
			mk, isK := mu.Key.(*ssa.Const)
			if !isK {
				bad++ // dynamic key could be K
				return
			}
			if c.Path(mk, nil) != c.Path(kc, nil) {
				return
			}
			n++
			if mi, isMI := mu.Value.(*ssa.MakeInterface); !isMI || !types.Identical(mi.X.Type(), T) {
				bad++
			}
		})
	}
	if n > 0 && bad == 0 {
		return fmt.Sprintf("every one of the %d stores of key %s into a %s in the module stores a %s (the map is produced by library code, not decoded from input)", n, c.Path(kc, nil), typeShort(nt), typeShort(T))
	}
	return ""
}

// addressTaken: the function is used as a value somewhere (so not every call is a static call).
func (k *c19) addressTaken(f *ssa.Function) bool {
	for _, g := range k.c.Funcs {
		taken := false
		forEachInstr(g, func(in ssa.Instruction) {
			var ops []*ssa.Value
			for _, op := range in.Operands(ops) {
				if *op == ssa.Value(f) {
					if ci, ok := in.(ssa.CallInstruction); ok && ci.Common().Value == ssa.Value(f) {
						// the callee position of a static call; arguments are checked below
						for _, a := range ci.Common().Args {
							if a == ssa.Value(f) {
								taken = true
							}
						}
						continue
					}
					taken = true
				}
			}
		})
		if taken {
			return true
		}
	}
	return false
}

// isSortLessOf: f is a function literal passed as `less` to sort.Slice / SliceStable (X is the captured slice).
func (k *c19) isSortLessOf(f *ssa.Function, X ssa.Value) bool {
	par := f.Parent()
	if par == nil {
		return false
	}
	found := false
	forEachInstr(par, func(in ssa.Instruction) {
		cl, ok := in.(*ssa.Call)
		if !ok || cl.Call.StaticCallee() == nil {
			return
		}
		n := cl.Call.StaticCallee().String()
		if n != "sort.Slice" && n != "sort.SliceStable" {
			return
		}
		if mc, isMC := cl.Call.Args[1].(*ssa.MakeClosure); isMC && mc.Fn == ssa.Value(f) {
			// the indexed value must be the sorted slice itself
			sorted := k.c.Path(cl.Call.Args[0], nil)
			if strings.TrimPrefix(k.c.Path(X, nil), "up:") == sorted {
				found = true
			}
		}
	})
	return found
}

// callersGuardLen: every module call site of f passes for parameter pi a value whose length is >= n on a dominating edge.
func (k *c19) callersGuardLen(f *ssa.Function, pi int, n int64) bool {
	sites := 0
	for _, g := range k.c.Funcs {
		ok := true
		forEachInstr(g, func(in ssa.Instruction) {
			cl, isC := in.(*ssa.Call)
			if !isC || cl.Call.StaticCallee() != f {
				return
			}
			sites++
			if pi >= len(cl.Call.Args) || !k.lenAtLeast(g, cl, "len("+k.c.Path(cl.Call.Args[pi], nil)+")", n) {
				ok = false
			}
		})
		if !ok {
			return false
		}
	}
	return sites > 0
}

// ---- R: a refusal is an error -------------------------------------------------------------------
// nilNil: a function with results (…, pointer-like, …, error) never returns a nil first result together with an error
// that is known to be nil at that point — `return nil, err` where err was tested (err != nil → return) on the way
// there. The callers of such functions use the result as soon as the error is nil.
func (k *c19) nilNil(f *ssa.Function) {
	c := k.c
	res := f.Signature.Results()
	if f.Blocks == nil || res.Len() < 2 || !isErrType(res.At(res.Len()-1).Type()) {
		return
	}
	switch res.At(0).Type().Underlying().(type) {
	case *types.Pointer, *types.Interface, *types.Map:
	default:
		return
	}
	var bad []string
	var pos token.Pos
	for _, r := range returnsOf(f) {
		if c.Path(returnedValue(r, 0), nil) != "nil" {
			continue
		}
		e := returnedValue(r, len(r.Results)-1)
		if k, isK := e.(*ssa.Const); isK {
			if k.IsNil() {
				// a plain (nil, nil): legitimate only for "nothing there" results; reported when the function is a parser /
				// builder (its other exits return allocations)
				continue
			}
		}
		if where := knownNilAt(e, r.Block(), 0); where != nil {
			bad = append(bad, fmt.Sprintf("return at %s hands back (nil, %s) where that error was found nil at %s", c.pos(r.Pos()), c.Path(e, nil), c.pos(where.Pos())))
			pos = r.Pos()
		}
	}
	k.counts["R"]++
	c.Check("C19.R", "refusal-carries-an-error:"+fname(f), len(bad) == 0, pos, "no exit returns a nil result with an error already known to be nil (the caller would use the nil result)", bad...)
}

// knownNilAt: v is known to be nil whenever control is in block b — a dominating branch took the side on which v == nil,
// or v is a φ all of whose incoming values are known nil where they come from. Returns the deciding comparison.
func knownNilAt(v ssa.Value, b *ssa.BasicBlock, d int) ssa.Value {
	if d > 4 {
		return nil
	}
	for x := b; x != nil; x = x.Idom() {
		id := x.Idom()
		if id == nil {
			break
		}
		if len(x.Preds) != 1 {
			continue
		}
		iff, isIf := id.Instrs[len(id.Instrs)-1].(*ssa.If)
		if !isIf {
			continue
		}
		bo, isB := iff.Cond.(*ssa.BinOp)
		if !isB || (bo.Op != token.NEQ && bo.Op != token.EQL) {
			continue
		}
		var tested ssa.Value
		if kk, isK := bo.Y.(*ssa.Const); isK && kk.IsNil() {
			tested = bo.X
		} else if kk, isK := bo.X.(*ssa.Const); isK && kk.IsNil() {
			tested = bo.Y
		}
		if tested == nil || cellValue(tested) != cellValue(v) {
			continue
		}
		if (bo.Op == token.EQL) == (id.Succs[0] == x) {
			return bo
		}
	}
	if phi, ok := v.(*ssa.Phi); ok && len(phi.Edges) > 0 {
		var first ssa.Value
		for i, e := range phi.Edges {
			if k, isK := e.(*ssa.Const); isK && k.IsNil() {
				continue
			}
			pred := phi.Block().Preds[i]
			w := nilOnEdge(e, pred, phi.Block())
			if w == nil {
				w = knownNilAt(e, pred, d+1)
			}
			if w == nil {
				return nil
			}
			if first == nil {
				first = w
			}
		}
		return first
	}
	return nil
}

// nilOnEdge: the branch that ends block from tests v against nil and the edge to block to is the side on which it is nil.
func nilOnEdge(v ssa.Value, from, to *ssa.BasicBlock) ssa.Value {
	iff, isIf := from.Instrs[len(from.Instrs)-1].(*ssa.If)
	if !isIf || from.Succs[0] == from.Succs[1] {
		return nil
	}
	bo, isB := iff.Cond.(*ssa.BinOp)
	if !isB || (bo.Op != token.NEQ && bo.Op != token.EQL) {
		return nil
	}
	var tested ssa.Value
	if kk, isK := bo.Y.(*ssa.Const); isK && kk.IsNil() {
		tested = bo.X
	} else if kk, isK := bo.X.(*ssa.Const); isK && kk.IsNil() {
		tested = bo.Y
	}
	if tested == nil || cellValue(tested) != cellValue(v) {
		return nil
	}
	if (bo.Op == token.EQL) == (from.Succs[0] == to) {
		return bo
	}
	return nil
}

// boundedBeforeCanonicalizer: the canonicalizer re-serialises by recursive descent with no depth or size limit of its
// own. Raw external bytes (a []byte / string parameter handed to MarshalCanonical as is) reach it only after the
// protocol parser has accepted the same buffer (Parse enforces MaxOperationSize and encoding/json's nesting limit), or
// after an explicit length test.
func (k *c19) boundedBeforeCanonicalizer(f *ssa.Function) {
	c := k.c
	if f.Blocks == nil {
		return
	}
	for _, cl := range findCalls(f, func(cl *ssa.Call) bool {
		g := cl.Call.StaticCallee()
		return g != nil && inModule(g) && g.Name() == "MarshalCanonical" && len(cl.Call.Args) == 1
	}) {
		mi, isMI := cl.Call.Args[0].(*ssa.MakeInterface)
		if !isMI {
			continue
		}
		t := types.TypeString(mi.X.Type().Underlying(), nil)
		if t != "[]byte" && t != "string" {
			continue
		}
		src := c.Path(mi.X, nil)
		if !regexp.MustCompile(`^\$\d+$`).MatchString(src) {
			continue
		}
		call := cl
		bounded := anyOf("the buffer was accepted by the protocol parser, or its length tested",
			&GCheck{Name: "Parse(…, buffer) ok", NoDescend: true, MatchCall: func(c *Ctx, p *ssa.Call, env Env) bool {
				if !callNamed(p, "Parse") && !callNamed(p, "ParseOperation") {
					return false
				}
				for _, a := range p.Call.Args {
					if c.Path(a, env) == src {
						return true
					}
				}
				return false
			}},
			cmpReject("len(buffer) > limit rejected", token.GTR, pathIs("len("+src+")"), func(string) bool { return true }))
		ok, w, _ := c.Guard(f, nil, bounded, func(in ssa.Instruction) bool { return in == ssa.Instruction(call) })
		k.counts["G"]++
		c.Check("C19.G", "raw-bytes-bounded-before-canonicalizer:"+fname(f), ok, cl.Pos(), fmt.Sprintf("the raw buffer %s reaches the recursive canonicalizer only after the parser accepted it (size and nesting bounded)", src), w...)
	}
}

var relCondRe = regexp.MustCompile(`^\((.+) (==|!=|<|<=|>|>=) (.+)\)=(true|false)$`)

// relOf parses a canonical comparison condition "(A op B)=truth" into its operands and the set of orderings of (A, B)
// under which it holds, as a bit set: 1 = A<B, 2 = A==B, 4 = A>B. The split at " op " is tried at every position.
func relOf(cnd string) (a, b string, set int, ok bool) {
	m := relCondRe.FindStringSubmatch(cnd)
	if m == nil {
		return "", "", 0, false
	}
	body := cnd[1:strings.LastIndex(cnd, ")=")]
	truth := strings.HasSuffix(cnd, "=true")
	for _, op := range []string{" == ", " != ", " <= ", " >= ", " < ", " > "} {
		for i := 0; i+len(op) <= len(body); i++ {
			if body[i:i+len(op)] != op {
				continue
			}
			l, r := body[:i], body[i+len(op):]
			if strings.Count(l, "(") != strings.Count(l, ")") || strings.Count(r, "(") != strings.Count(r, ")") {
				continue
			}
			s := map[string]int{" == ": 2, " != ": 5, " <= ": 3, " >= ": 6, " < ": 1, " > ": 4}[op]
			if !truth {
				s = 7 &^ s
			}
			return l, r, s, true
		}
	}
	return "", "", 0, false
}

// impliedByAny: some condition known on the path implies the needed one (same two operands, in either order, and the
// known relation holds only where the needed one does): `i < len(x)` implies `len(x) != i`.
func impliedByAny(have []string, need string) bool {
	na, nb, ns, ok := relOf(need)
	if !ok {
		return false
	}
	for _, h := range have {
		// (`a && b` decided in a tagless switch arm is the φ of b and false: where it is true, b is)
		if strings.HasPrefix(h, "phi(") && strings.HasSuffix(h, "|false)=true") {
			h = h[len("phi("):len(h)-len("|false)=true")] + "=true"
		} else if strings.HasPrefix(h, "phi(false|") && strings.HasSuffix(h, ")=true") {
			h = h[len("phi(false|"):len(h)-len(")=true")] + "=true"
		}
		ha, hb, hs, okH := relOf(h)
		if !okH {
			continue
		}
		if ha == nb && hb == na {
			// mirror: A<B is B>A
			hs = (hs & 2) | ((hs & 1) << 2) | ((hs & 4) >> 2)
			ha, hb = hb, ha
		}
		if ha == na && hb == nb && hs&^ns == 0 && hs != 0 {
			return true
		}
	}
	return false
}

// growsFrom: every value x may hold is base itself or the result of appending to such a value.
func growsFrom(x, base ssa.Value) bool {
	seen := map[ssa.Value]bool{}
	var ok func(v ssa.Value, d int) bool
	ok = func(v ssa.Value, d int) bool {
		if v == base {
			return true
		}
		if seen[v] {
			return true
		}
		if d > 12 {
			return false
		}
		seen[v] = true
		switch y := v.(type) {
		case *ssa.Phi:
			for _, e := range y.Edges {
				if !ok(e, d+1) {
					return false
				}
			}
			return true
		case *ssa.Call:
			if bi, isB := y.Call.Value.(*ssa.Builtin); isB && bi.Name() == "append" {
				return ok(y.Call.Args[0], d+1)
			}
		}
		return false
	}
	return ok(x, 0)
}

// nonNegValue: v is a length, a non-negative constant, or a sum / product / max of such values.
func nonNegValue(v ssa.Value, d int) bool {
	if d > 6 {
		return false
	}
	switch x := v.(type) {
	case *ssa.Const:
		if x.Value == nil {
			return false
		}
		kv, ok := constant.Int64Val(x.Value)
		return ok && kv >= 0
	case *ssa.Call:
		if bi, ok := x.Call.Value.(*ssa.Builtin); ok {
			switch bi.Name() {
			case "len", "cap":
				return true
			case "max":
				for _, a := range x.Call.Args {
					if nonNegValue(a, d+1) {
						return true
					}
				}
				return false
			case "min":
				for _, a := range x.Call.Args {
					if !nonNegValue(a, d+1) {
						return false
					}
				}
				return len(x.Call.Args) > 0
			}
		}
	case *ssa.BinOp:
		if x.Op == token.ADD || x.Op == token.MUL {
			return nonNegValue(x.X, d+1) && nonNegValue(x.Y, d+1)
		}
	case *ssa.Phi:
		for _, e := range x.Edges {
			if !nonNegValue(e, d+1) {
				return false
			}
		}
		return len(x.Edges) > 0
	}
	return false
}
