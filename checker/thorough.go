package main

// Thorough tier: (a) re-run the property's rules on the `-tags testing` build variant, (b) mutation
// self-test: apply each seeded single-construct edit to a scratch copy of the working tree (outside
// /repo and /verif), re-analyse it in a subprocess and require that the named rule fires. A mutant that
// no longer applies is skipped; a missed mutant is reported in evidence (it says something about the
// checker, not about /repo) and never becomes a VIOLATION.

import (
	"encoding/json"
	"fmt"
	"io"
	"io/fs"
	"os"
	"os/exec"
	"path/filepath"
	"sort"
	"strings"
	"sync"
)

type mutant struct {
	ID     string `json:"id"`
	File   string `json:"file,omitempty"`
	Old    string `json:"old,omitempty"`
	New    string `json:"new,omitempty"`
	Patch  string `json:"patch,omitempty"` // path relative to /verif of a unified diff (seeded/<id>/patch.diff)
	Expect string `json:"expect"`          // rule id prefix that must fire
	Note   string `json:"note,omitempty"`
}

type mutResult struct {
	ID     string   `json:"id"`
	Status string   `json:"status"` // caught | missed | skipped | invalid
	Fired  []string `json:"fired,omitempty"`
	Note   string   `json:"note,omitempty"`
}

func copyTree(src, dst string) error {
	return filepath.WalkDir(src, func(p string, d fs.DirEntry, err error) error {
		if err != nil {
			return err
		}
		rel, _ := filepath.Rel(src, p)
		if rel == ".git" || strings.HasPrefix(rel, ".git"+string(filepath.Separator)) {
			if d.IsDir() {
				return filepath.SkipDir
			}
			return nil
		}
		t := filepath.Join(dst, rel)
		if d.IsDir() {
			return os.MkdirAll(t, 0o755)
		}
		in, err := os.Open(p)
		if err != nil {
			return err
		}
		defer in.Close()
		out, err := os.Create(t)
		if err != nil {
			return err
		}
		defer out.Close()
		_, err = io.Copy(out, in)
		return err
	})
}

func loadMutants(verif, prop string) []mutant {
	var ms []mutant
	b, err := os.ReadFile(filepath.Join(verif, "mutants", prop+".json"))
	if err == nil {
		json.Unmarshal(b, &ms)
	}
	// seeded changes kept under /verif/seeded/<id>/ with meta.json {"property": ..., "expect_rule": ...}
	dirs, _ := filepath.Glob(filepath.Join(verif, "seeded", "*", "meta.json"))
	sort.Strings(dirs)
	for _, mj := range dirs {
		var meta struct {
			Property string `json:"property"`
			Expect   string `json:"expect_rule"`
			Needs    string `json:"needs"`
		}
		b, err := os.ReadFile(mj)
		if err != nil || json.Unmarshal(b, &meta) != nil || meta.Property != prop {
			continue
		}
		d := filepath.Dir(mj)
		if meta.Expect == prop {
			meta.Expect = "" // any rule reported by this property's check (shared rules keep their home id, e.g. C05.T2 under C03)
		}
		ms = append(ms, mutant{ID: "seeded/" + filepath.Base(d), Patch: filepath.Join("seeded", filepath.Base(d), "patch.diff"), Expect: meta.Expect, Note: meta.Needs})
	}
	return ms
}

func runMutant(self, repo, verif, prop string, m mutant) mutResult {
	res := mutResult{ID: m.ID, Note: m.Note}
	tmp, err := os.MkdirTemp("", "stmut-")
	if err != nil {
		res.Status = "skipped"
		res.Note = err.Error()
		return res
	}
	defer os.RemoveAll(tmp)
	tree := filepath.Join(tmp, "repo")
	if err := copyTree(repo, tree); err != nil {
		res.Status = "skipped"
		res.Note = "copy failed: " + err.Error()
		return res
	}
	if m.Patch != "" {
		cmd := exec.Command("patch", "-p1", "-s", "--no-backup-if-mismatch", "-i", filepath.Join(verif, m.Patch))
		cmd.Dir = tree
		if out, err := cmd.CombinedOutput(); err != nil {
			res.Status = "skipped"
			res.Note = "patch no longer applies: " + strings.TrimSpace(string(out))
			return res
		}
	} else {
		p := filepath.Join(tree, m.File)
		b, err := os.ReadFile(p)
		if err != nil || strings.Count(string(b), m.Old) != 1 {
			res.Status = "skipped"
			res.Note = "edit no longer applies (anchor text occurs != 1 times)"
			return res
		}
		os.WriteFile(p, []byte(strings.Replace(string(b), m.Old, m.New, 1)), 0o644)
	}
	vtmp := filepath.Join(tmp, "verif")
	os.MkdirAll(vtmp, 0o755)
	if kb, err := os.ReadFile(filepath.Join(verif, "known_findings.txt")); err == nil {
		os.WriteFile(filepath.Join(vtmp, "known_findings.txt"), kb, 0o644)
	}
	cmd := exec.Command(self, "-property", prop, "-tier", "quick", "-repo", tree, "-verif", vtmp)
	out, _ := cmd.CombinedOutput()
	so := string(out)
	if strings.Contains(so, "LOAD FAILED") {
		res.Status = "invalid"
		res.Note = "mutant does not type-check"
		return res
	}
	for _, l := range strings.Split(so, "\n") {
		if strings.HasPrefix(l, "FAIL ") {
			f := strings.Fields(l)
			if len(f) > 1 {
				res.Fired = append(res.Fired, f[1])
			}
		}
	}
	if m.Expect == "NONE" { // negative control: behaviour-preserving edit, nothing may fire
		res.Status = "caught"
		if len(res.Fired) > 0 {
			res.Status = "false-alarm"
		}
		return res
	}
	res.Status = "missed"
	for _, f := range res.Fired {
		if strings.HasPrefix(f, m.Expect) {
			res.Status = "caught"
		}
	}
	if res.Status == "missed" && len(res.Fired) > 0 && m.Expect == "" {
		res.Status = "caught"
	}
	return res
}

func (c *Ctx) selfTest() {
	ms := loadMutants(c.VerifDir, c.Prop)
	if len(ms) == 0 {
		c.extra["selftest"] = "no mutants registered"
		return
	}
	self, err := os.Executable()
	if err != nil {
		c.extra["selftest"] = "cannot locate own executable: " + err.Error()
		return
	}
	results := make([]mutResult, len(ms))
	var wg sync.WaitGroup
	sem := make(chan struct{}, 8)
	for i := range ms {
		wg.Add(1)
		go func(i int) {
			defer wg.Done()
			sem <- struct{}{}
			defer func() { <-sem }()
			results[i] = runMutant(self, c.RepoDir, c.VerifDir, c.Prop, ms[i])
		}(i)
	}
	wg.Wait()
	cnt := map[string]int{}
	for _, r := range results {
		cnt[r.Status]++
		if r.Status != "caught" {
			fmt.Printf("selftest %s: %s %s %v\n", r.ID, r.Status, r.Note, r.Fired)
		}
	}
	fmt.Printf("selftest: mutants=%d caught=%d missed=%d false-alarm=%d skipped=%d invalid=%d\n", len(ms), cnt["caught"], cnt["missed"], cnt["false-alarm"], cnt["skipped"], cnt["invalid"])
	c.extra["selftest"] = map[string]interface{}{"mutants": len(ms), "caught_or_silent_as_expected": cnt["caught"], "missed": cnt["missed"], "false_alarm_on_negative_control": cnt["false-alarm"], "skipped": cnt["skipped"], "invalid": cnt["invalid"], "results": results}
}

func (c *Ctx) thorough(pd *propDef) {
	// (a) tag variant: analyse the `testing` build as a second configuration
	if c.Tags == "" {
		c2, err := Load(c.RepoDir, "testing", false, pd.extraPkgs...)
		if err != nil {
			c.Note("build variant -tags testing could not be loaded: %v", err)
		} else {
			c2.Prop, c2.Tier, c2.VerifDir = c.Prop, c.Tier, c.VerifDir
			pd.run(c2)
			bad := 0
			for _, o := range c2.obls {
				if !o.OK {
					bad++
					o.Key = "tags=testing:" + o.Key
					c.obls = append(c.obls, o)
				}
			}
			c.extra["variant_tags_testing"] = map[string]int{"obligations": len(c2.obls), "failed": bad}
		}
	}
	// (b) mutation self-test
	c.selfTest()
}
