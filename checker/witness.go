package main

// Positive examples for rules whose expected number of findings on a healthy tree is zero. A rule that
// matches nothing passes vacuously forever; each such rule is therefore run, on every check run, against a
// tiny built-in program that contains exactly the construct the rule is written for, and the check fails
// if the rule stays silent on it ("the detector is alive"). The program is type-checked and built to SSA in
// memory (it imports nothing); it is never compiled into anything and never touches /repo.

import (
	"fmt"
	"go/ast"
	"go/parser"
	"go/token"
	"go/types"

	"golang.org/x/tools/go/ssa"
	"golang.org/x/tools/go/ssa/ssautil"
)

const witnessSrc = `package witness

type sink struct{ b []byte }

func (s *sink) WriteByte(c byte) error { s.b = append(s.b, c); return nil }
func (s *sink) WriteString(x string) (int, error) { s.b = append(s.b, x...); return len(x), nil }

// hashWitness: JSON-like values used as keys of an interface-keyed map (C19.H).
func hashWitness(values []interface{}) int {
	seen := map[interface{}]bool{}
	for _, v := range values {
		seen[v] = true
	}
	return len(seen)
}

// eqWitness: two interface{} values compared with == (C19.H).
func eqWitness(a, b interface{}) bool { return a == b }

// hashOK: key statically a string — must stay silent.
func hashOK(values []string) int {
	seen := map[interface{}]bool{}
	for _, v := range values {
		seen[v] = true
	}
	return len(seen)
}

type node struct{ next *node; val int }

// nilUseWitness: value tested nil and then dereferenced on that very path (C19.Z).
func nilUseWitness(n *node) int {
	if n == nil {
		return n.val
	}
	return 0
}

// nilNilWitness: the refusal returns the error of an earlier, successful step (C19.R).
func nilNilWitness(a, b func() error) (*node, error) {
	err := a()
	if err != nil {
		return nil, err
	}
	if e2 := b(); e2 != nil {
		return nil, err
	}
	return &node{}, nil
}

// nilNilOK: must stay silent.
func nilNilOK(a, b func() error) (*node, error) {
	err := a()
	if err != nil {
		return nil, err
	}
	if e2 := b(); e2 != nil {
		return nil, e2
	}
	return &node{}, nil
}

// sepWitness: separator by loop index although elements are written conditionally (C14.J1).
func sepWitness(keys []string, out *sink) {
	for i, k := range keys {
		switch k {
		case "a", "b":
		default:
			if i > 0 {
				out.WriteByte(',')
			}
			out.WriteString(k)
		}
	}
}

// sepOK: separator decided by what was written so far — must stay silent.
func sepOK(keys []string, out *sink) {
	n := 0
	for _, k := range keys {
		if k == "a" {
			continue
		}
		if n > 0 {
			out.WriteByte(',')
		}
		out.WriteString(k)
		n++
	}
}

// mutateWitness: writes through its input at depth (C12.E): a nested map of the input is updated.
func mutateWitness(in map[string]interface{}) map[string]interface{} {
	out := map[string]interface{}{}
	for k, v := range in {
		out[k] = v
	}
	if inner, ok := out["a"].(map[string]interface{}); ok {
		inner["x"] = 1
	}
	return out
}

// appendWitness: appends to a slice taken from the input (may write the caller's backing array).
func appendWitness(in [][]string) []string {
	first := in[0]
	return append(first, "x")
}

// copyOK: builds a fresh value from the input without writing through it — must stay silent.
func copyOK(in map[string][]string) map[string][]string {
	out := map[string][]string{}
	for k, v := range in {
		out[k] = append([]string{}, v...)
	}
	return out
}

type proto struct{ delta uint; size uint }

// protoWriteWitness: a received configuration value gets a field assigned (C09.K1).
func protoWriteWitness(p proto) proto {
	if p.delta == 0 {
		p.delta = 7200
	}
	return p
}

// protoReadOK: reads the configuration and builds a fresh literal — must stay silent.
func protoReadOK(p proto) proto {
	q := proto{delta: p.delta, size: 1}
	return q
}

// mapOrderWitness: result depends on map iteration order (C17.D1).
func mapOrderWitness(m map[string]int) []string {
	var out []string
	for k := range m {
		out = append(out, k)
	}
	return out
}
`

type witnessProg struct {
	fns map[string]*ssa.Function
}

func buildWitness(fset *token.FileSet) (*witnessProg, error) {
	file, err := parser.ParseFile(fset, "witness.go", witnessSrc, 0)
	if err != nil {
		return nil, err
	}
	pkg := types.NewPackage("witness", "witness")
	sp, _, err := ssautil.BuildPackage(&types.Config{}, fset, pkg, []*ast.File{file}, ssa.InstantiateGenerics)
	if err != nil {
		return nil, err
	}
	w := &witnessProg{fns: map[string]*ssa.Function{}}
	for name, m := range sp.Members {
		if f, ok := m.(*ssa.Function); ok {
			w.fns[name] = f
		}
	}
	return w, nil
}

// witnessCtx: a scratch context that shares the loaded program's tables but collects obligations separately.
func (c *Ctx) witnessCtx() *Ctx {
	wc := *c
	wc.obls = nil
	wc.mins = map[string]int{}
	wc.analysed = map[*ssa.Function]bool{}
	wc.notes = nil
	wc.assume = nil
	wc.extra = map[string]interface{}{}
	wc.gmemo = map[string]int{}
	return &wc
}

// alive records, as an obligation of the real context, that a zero-expected rule fired on its positive
// example (fires) and stayed silent on the matching negative example (silent).
func (c *Ctx) alive(rule, example string, fired, silentOnControl bool) {
	c.Check(rule, "positive-example:"+example, fired && silentOnControl, token.NoPos,
		fmt.Sprintf("the rule is run on a built-in program containing the construct it is written for: reported=%v (must be true), silent on the correct counterpart=%v (must be true)", fired, silentOnControl))
}

func failed(wc *Ctx, rule string) int {
	n := 0
	for _, o := range wc.obls {
		if o.Rule == rule && !o.OK {
			n++
		}
	}
	return n
}
