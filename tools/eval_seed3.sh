#!/bin/bash
# eval_seed3.sh <seed-id> <property>: re-evaluates a seed already kept under /verif/seeded/<id>/ (patch.diff, notes.md, demo/)
# Like eval_seed.sh, for agents that deliver several seeds as <worktree>/_seedN/ (patch.diff, seeded_demoN_test.go,
# notes.md whose first line is `demo: pkg/<dir>/seeded_demoN_test.go`).
set -u
ID=$1; PROP=$2; DEST=/verif/seeded/$ID
export GOFLAGS=-mod=mod GOPROXY=off GOSUMDB=off GOTOOLCHAIN=local
SD=$DEST
[ -f $SD/patch.diff ] || { echo "no $SD/patch.diff"; exit 2; }
DEMO=$(head -5 $SD/notes.md | grep -o 'pkg/[A-Za-z0-9_/.-]*_test\.go' | head -1)
DEMOSRC=$DEST/demo/$DEMO
[ -z "$DEMO" ] && { echo "cannot find demo path in notes.md"; exit 2; }
[ -f "$DEMOSRC" ] || { echo "no demo test file $DEMOSRC"; exit 2; }
SCR=/tmp/chk_$ID
rm -rf $SCR; git -C /repo worktree add -q --detach $SCR HEAD || exit 2
trap "git -C /repo worktree remove --force $SCR >/dev/null 2>&1" EXIT
cd $SCR
patch -p1 -s --dry-run < $DEST/patch.diff >/dev/null || { echo "PATCH DOES NOT APPLY"; exit 3; }
patch -p1 -s < $DEST/patch.diff
go build ./... || { echo "DOES NOT BUILD"; exit 3; }
SUITE=$(go test -json -vet=off -count=1 ./... 2>/dev/null | python3 -c "
import sys,json
p=f=0
for l in sys.stdin:
    try: e=json.loads(l)
    except Exception: continue
    if e.get('Test') and e.get('Action')=='pass': p+=1
    if e.get('Test') and e.get('Action')=='fail': f+=1
print(p,f)")
echo "suite with change (pass fail): $SUITE"
mkdir -p $(dirname $DEMO); cp $DEMOSRC $DEMO
go test -vet=off -count=1 ./$(dirname $DEMO) >/tmp/chk_$ID.with.log 2>&1; WITH=$?
patch -p1 -s -R < $DEST/patch.diff
go test -vet=off -count=1 ./$(dirname $DEMO) >/tmp/chk_$ID.without.log 2>&1; WITHOUT=$?
echo "demo exit with change: $WITH (expect != 0); without change: $WITHOUT (expect 0)"
patch -p1 -s < $DEST/patch.diff
rm -f $DEMO
mkdir -p /tmp/chkv_$ID; cp /verif/known_findings.txt /tmp/chkv_$ID/
FIRED=""
for p in C01 C02 C03 C04 C05 C06 C07 C08 C09 C10 C11 C12 C13 C14 C15 C16 C17 C18 C19 C20; do
  out=$(${STCHECK:-/verif/bin/stcheck} -property $p -repo $SCR -verif /tmp/chkv_$ID 2>&1 | grep '^FAIL' | awk '{print $2}' | cut -d: -f1 | sort -u | tr '\n' ' ')
  [ -n "$out" ] && FIRED="$FIRED $out"
done
rm -rf /tmp/chkv_$ID
echo "rules fired: ${FIRED:-NONE}"
python3 - <<PY
import json
meta={"property":"$PROP","id":"$ID","expect_rule":"$PROP","suite_pass_fail_with_change":"$SUITE","demo_exit_with_change":$WITH,"demo_exit_without_change":$WITHOUT,
 "rules_fired_when_first_evaluated":"$FIRED".split(),"source":"independent sub-agent given only the property text (plus one-line descriptions of earlier seeds to avoid) and its own worktree",
 "ran":["patch.diff applied to a scratch worktree of /repo HEAD","go build ./...","go test -vet=off -count=1 ./... (whole suite)","go test of the demo package with and without the change","bin/stcheck -property C01..C20 -repo <scratch>"]}
try:
    old=json.load(open("$DEST/meta.json")); meta["needs"]=old.get("needs","")
except Exception: meta["needs"]=""
json.dump(meta,open("$DEST/meta.json","w"),indent=1)
PY
