#!/usr/bin/env python3
"""Applies each behaviour-preserving edit of benign/edits.json to a scratch copy of /repo, checks that it
builds and passes the test suite, and runs all twenty checks on it: nothing may fire. Prints a table."""
import json, os, shutil, subprocess, sys, tempfile
from concurrent.futures import ThreadPoolExecutor
root = os.path.dirname(os.path.dirname(os.path.abspath(__file__)))
env = dict(os.environ, GOFLAGS="-mod=mod", GOPROXY="off", GOSUMDB="off", GOTOOLCHAIN="local")
edits = json.load(open(os.path.join(root, "benign", "edits.json")))
only = set(sys.argv[1:])
ids = [json.loads(l)["id"] for l in open(os.path.join(root, "properties.jsonl"))]
def run(e):
    tmp = tempfile.mkdtemp(prefix="stben-")
    try:
        tree = os.path.join(tmp, "repo")
        shutil.copytree("/repo", tree, ignore=shutil.ignore_patterns(".git"))
        p = os.path.join(tree, e["file"])
        s = open(p).read()
        if s.count(e["old"]) != 1:
            return e["id"], "SKIPPED (anchor)", []
        s = s.replace(e["old"], e["new"])
        if "append" in e: s += e["append"]
        if "import" in e and e["import"].strip() not in s.split(")")[0]:
            s = s.replace("import (\n", "import (\n" + e["import"], 1)
        open(p, "w").write(s)
        subprocess.run(["gofmt", "-w", p], env=env)
        b = subprocess.run(["go", "build", "./..."], cwd=tree, env=env, capture_output=True, text=True)
        if b.returncode != 0:
            return e["id"], "INVALID (build): " + b.stderr[:200], []
        t = subprocess.run(["go", "test", "-vet=off", "-count=1", "./pkg/versions/...", "./pkg/vdr/...", "./pkg/commitment/...", "./pkg/jwsutil/..."], cwd=tree, env=env, capture_output=True, text=True)
        if "FAIL" in t.stdout:
            return e["id"], "INVALID (tests fail)", []
        vt = os.path.join(tmp, "verif"); os.makedirs(vt)
        shutil.copy(os.path.join(root, "known_findings.txt"), vt)
        fired = []
        for pid in ids:
            r = subprocess.run([os.path.join(root, "bin/stcheck"), "-property", pid, "-repo", tree, "-verif", vt], capture_output=True, text=True)
            fired += [l.split()[1] for l in r.stdout.splitlines() if l.startswith("FAIL ")]
        return e["id"], "silent" if not fired else "FALSE ALARM", fired
    finally:
        shutil.rmtree(tmp, ignore_errors=True)
with ThreadPoolExecutor(6) as ex:
    res = list(ex.map(run, [e for e in edits if not only or e["id"] in only]))
bad = 0
for (i, st, fired), e in zip(res, [e for e in edits if not only or e["id"] in only]):
    print(f"{i:4s} {st:14s} {e['note'][:80]}")
    for f in fired: print("       ", f)
    if st != "silent": bad += 1
print("benign edits:", len(res), "not silent:", bad)
