#!/bin/bash
# Runs the repository's pinned test suite (guard off: there are no hooks) and prints pass/fail counts.
cd /repo && export GOFLAGS=-mod=mod GOPROXY=off GOSUMDB=off
go test -mod=mod -json -vet=off -count=1 -timeout 25m ./... 2>&1 | python3 -c "
import sys,json
p=f=0
fails=[]
for l in sys.stdin:
    try: e=json.loads(l)
    except Exception: continue
    if e.get('Test') and e.get('Action')=='pass': p+=1
    if e.get('Test') and e.get('Action')=='fail': f+=1; fails.append(e['Package']+'::'+e['Test'])
print('pass',p,'fail',f)
for x in fails: print('FAIL',x)
"
