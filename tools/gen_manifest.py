#!/usr/bin/env python3
"""Regenerates /verif/MANIFEST.json from tools/claims.json (one entry per claimed property)."""
import json, os
here = os.path.dirname(os.path.abspath(__file__))
root = os.path.dirname(here)
claims = json.load(open(os.path.join(here, "claims.json")))
props = [json.loads(l) for l in open(os.path.join(root, "properties.jsonl"))]
ids = [p["id"] for p in props]
checks = []
na = []
for pid in ids:
    c = claims.get(pid)
    if not c or c.get("na"):
        na.append({"property_id": pid, "reason": (c or {}).get("na", "check not built yet in this revision of /verif (see DESIGN.md section 3 for the plan)")})
        continue
    checks.append({
        "property_id": pid,
        "quick_cmd": f"bin/stcheck -property {pid} -tier quick",
        "thorough_cmd": f"bin/stcheck -property {pid} -tier thorough",
        "evidence_file": f"/verif/evidence/{pid}.json",
        "replay_cmd_template": f"bin/stcheck -property {pid} -tier quick  # violation record: {{path}}",
        "engine": "stcheck",
        "level_claimed": {"category": "other", "text": c["text"], "design_ref": c.get("ref", "DESIGN.md section 3, " + pid)},
        "level_note": c["note"],
        "technique": c["technique"],
    })
m = {
    "version": 1,
    "setup_cmd": "cd /verif/checker && env -u GOWORK GOFLAGS=-mod=mod GOPROXY=off GOSUMDB=off GOTOOLCHAIN=local go build -o /verif/bin/stcheck .",
    "hooks": {
        "guard": "verif",
        "enable": "none needed: the checks are static analyses of /repo's working tree (go/packages + go/ssa); no instrumentation is compiled into the repository",
        "baseline_off_cmd": "cd /repo && go test -mod=mod -json -vet=off -count=1 -timeout 25m ./...",
        "source_commits": [],
        "add_only": True,
    },
    "engines": [{"name": "stcheck", "path": "/verif/checker", "serves_properties": [c["property_id"] for c in checks],
                 "kind_free_text": "repository-specific static analyser over the type-checked program and go/ssa form: must-pass-through guard engine (edge cut + interprocedural summaries), access-path provenance, table extraction, ordering-abstract decision trees, may-write effect analysis, panic-site obligations, lockset/shared-state inventory"}],
    "checks": checks,
    "not_applicable": na,
    "notes": "All checks are static (no code of /repo is executed). Each check decides a structural clause that is a necessary condition of the property; the clause and what is not decided are stated in level_claimed.text, in the evidence explanation and in DESIGN.md. Genuine defects found and repaired are listed in /verif/known_findings.txt.",
}
json.dump(m, open(os.path.join(root, "MANIFEST.json"), "w"), indent=1)
print("checks:", len(checks), "not_applicable:", len(na))
