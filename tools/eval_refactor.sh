#!/bin/bash
# eval_refactor.sh <agent-worktree> <prefix>: for every NN.diff of an independently written behaviour-preserving
# refactoring, apply it to a scratch worktree of /repo HEAD, build, run the suite, run all twenty checks: expect silence.
# Keeps each as /verif/benign/agent/<prefix>-NN.diff and prints one line per refactoring.
set -u
WT=$1; PFX=$2
export GOFLAGS=-mod=mod GOPROXY=off GOSUMDB=off GOTOOLCHAIN=local
mkdir -p /verif/benign/agent
for d in $WT/_refactor/[0-9][0-9].diff; do
  nn=$(basename $d .diff); id=$PFX-$nn
  SCR=/tmp/rf_$id; rm -rf $SCR
  git -C /repo worktree add -q --detach $SCR HEAD || exit 2
  ( cd $SCR
    if ! patch -p1 -s < $d >/dev/null 2>&1; then echo "$id PATCH-DOES-NOT-APPLY"; exit 0; fi
    if ! go build ./... 2>/dev/null; then echo "$id DOES-NOT-BUILD"; exit 0; fi
    SUITE=$(go test -json -vet=off -count=1 ./... 2>/dev/null | python3 -c "
import sys,json
p=f=0
for l in sys.stdin:
    try: e=json.loads(l)
    except Exception: continue
    if e.get('Test') and e.get('Action')=='pass': p+=1
    if e.get('Test') and e.get('Action')=='fail': f+=1
print(p,f)")
    mkdir -p /tmp/rfv_$id; cp /verif/known_findings.txt /tmp/rfv_$id/
    FIRED=""
    for p in C01 C02 C03 C04 C05 C06 C07 C08 C09 C10 C11 C12 C13 C14 C15 C16 C17 C18 C19 C20; do
      out=$(${STCHECK:-/verif/bin/stcheck} -property $p -repo $SCR -verif /tmp/rfv_$id 2>&1 | grep '^FAIL' | awk '{print $2}' | sort -u | tr '\n' ' ')
      [ -n "$out" ] && FIRED="$FIRED $out"
    done
    rm -rf /tmp/rfv_$id
    cp $d /verif/benign/agent/$id.diff
    echo "$id suite=[$SUITE] fired: ${FIRED:-NONE}"
  )
  git -C /repo worktree remove --force $SCR >/dev/null 2>&1
done
mkdir -p /verif/benign/agent; cp $WT/_refactor/notes.md /verif/benign/agent/$PFX-notes.md 2>/dev/null
