#!/usr/bin/env python3
"""Runs all twenty checks on every independently written behaviour-preserving refactoring kept under
benign/agent/*.diff (each was confirmed to build and to pass the 734-test suite when it was collected by
tools/eval_refactor.sh). Nothing may fire. Usage: benign_agent.py [ids...]"""
import glob, json, os, shutil, subprocess, sys, tempfile
from concurrent.futures import ThreadPoolExecutor
root = os.path.dirname(os.path.dirname(os.path.abspath(__file__)))
env = dict(os.environ, GOFLAGS="-mod=mod", GOPROXY="off", GOSUMDB="off", GOTOOLCHAIN="local")
ids = [json.loads(l)["id"] for l in open(os.path.join(root, "properties.jsonl"))]
only = set(sys.argv[1:])
diffs = sorted(glob.glob(os.path.join(root, "benign", "agent", "*.diff")))
diffs = [d for d in diffs if not only or os.path.basename(d)[:-5] in only]
def run(d):
    name = os.path.basename(d)[:-5]
    tmp = tempfile.mkdtemp(prefix="stbag-")
    try:
        tree = os.path.join(tmp, "repo")
        shutil.copytree("/repo", tree, ignore=shutil.ignore_patterns(".git"))
        p = subprocess.run(["patch", "-p1", "-s", "--no-backup-if-mismatch", "-i", d], cwd=tree, capture_output=True, text=True)
        if p.returncode != 0:
            return name, "SKIPPED (patch no longer applies)", []
        vt = os.path.join(tmp, "verif"); os.makedirs(vt)
        shutil.copy(os.path.join(root, "known_findings.txt"), vt)
        fired = []
        for pid in ids:
            r = subprocess.run([os.path.join(root, "bin/stcheck"), "-property", pid, "-repo", tree, "-verif", vt], capture_output=True, text=True, env=env)
            if "LOAD FAILED" in r.stdout:
                return name, "INVALID (does not type-check)", []
            fired += [l.split()[1] for l in r.stdout.splitlines() if l.startswith("FAIL ")]
        return name, "silent" if not fired else "FALSE ALARM", fired
    finally:
        shutil.rmtree(tmp, ignore_errors=True)
with ThreadPoolExecutor(14) as ex:
    res = list(ex.map(run, diffs))
bad = 0
for name, st, fired in res:
    print(f"{name:8s} {st}")
    for f in fired: print("        ", f)
    if st != "silent": bad += 1
print("agent refactorings:", len(res), "not silent:", bad)
sys.exit(1 if bad else 0)
